//! C08 — formatting is idempotent: fmt(fmt(x)) == fmt(x) for every parseable
//! text and every [format] setting.
//!
//! Sub-checks
//!  * `relayout`   arbitrary re-layout of corpus files (E1b) × [format] settings
//!  * `respace`    line-structure-preserving perturbation of an already
//!                 formatted text (extra / removed intra-line blanks): reaches
//!                 the aligner without changing which lines exist
//!  * `corpus`     every corpus file as it is × a fixed grid of settings
//!  * `cli`        `veryl fmt` twice on a project directory (thorough + a few in quick)

use crate::front::{self, FmtOpts};
use vcore::{CaseCfg, Ctx, Draw, Outcome, hash_str, json};
use vgen::relayout::{self, LayoutOpts};

fn squeeze(s: &str) -> String {
    // collapse runs of blanks inside a line, trim line ends
    s.lines()
        .map(|l| l.split_whitespace().collect::<Vec<_>>().join(""))
        .collect::<Vec<_>>()
        .join("\n")
}

/// Classify how `f1 = fmt(x)` and `f2 = fmt(f1)` differ (root-cause signature).
pub fn classify(f1: &str, f2: &str, o: &FmtOpts) -> String {
    let l1: Vec<&str> = f1.lines().collect();
    let l2: Vec<&str> = f2.lines().collect();
    let align = if o.vertical_align { "align" } else { "noalign" };
    if l1.len() == l2.len() && squeeze(f1) == squeeze(f2) {
        // same tokens on the same lines; only the amount of padding differs
        return format!("padding-only/{align}");
    }
    let blank1 = l1.iter().filter(|l| l.trim().is_empty()).count();
    let blank2 = l2.iter().filter(|l| l.trim().is_empty()).count();
    let nb1: Vec<String> = l1.iter().filter(|l| !l.trim().is_empty()).map(|l| squeeze(l)).collect();
    let nb2: Vec<String> = l2.iter().filter(|l| !l.trim().is_empty()).map(|l| squeeze(l)).collect();
    if nb1 == nb2 && blank1 != blank2 {
        return format!("blank-lines/{align}");
    }
    let t1: String = f1.split_whitespace().collect::<Vec<_>>().join("");
    let t2: String = f2.split_whitespace().collect::<Vec<_>>().join("");
    if t1 == t2 {
        return format!("line-breaks/{align}");
    }
    format!("content/{align}")
}

fn first_diff(a: &str, b: &str) -> String {
    let la: Vec<&str> = a.split('\n').collect();
    let lb: Vec<&str> = b.split('\n').collect();
    for i in 0..la.len().max(lb.len()) {
        let x = la.get(i).copied().unwrap_or("<eof>");
        let y = lb.get(i).copied().unwrap_or("<eof>");
        if x != y {
            return format!("first difference at line {}:\n  fmt(x)     : {:?}\n  fmt(fmt(x)): {:?}", i + 1, x, y);
        }
    }
    "no difference".into()
}

pub fn idempotent(x: &str, o: &FmtOpts, origin: &str) -> Outcome {
    idempotent_in("", x, o, origin)
}

/// `domain` prefixes the failure signature, so that a finding listed for
/// arbitrarily re-laid text does not hide a failure on as-shipped or merely
/// re-spaced text.
pub fn idempotent_in(domain: &str, x: &str, o: &FmtOpts, origin: &str) -> Outcome {
    let md = front::metadata(o);
    let Some(f1) = front::format_text(x, &md, "a.veryl") else {
        return Outcome::skip("input does not parse");
    };
    let Some(f2) = front::format_text(&f1, &md, "a.veryl") else {
        // a C09 matter (formatted output must parse); do not double-report here
        return Outcome::skip("formatted output does not parse (C09)");
    };
    if f1 == f2 {
        let mut classes = vec![
            format!("align={}", o.vertical_align),
            format!("max_width={}", o.max_width),
        ];
        if x.contains("//") || x.contains("/*") {
            classes.push("has_comment".into());
        }
        return Outcome::pass(
            hash_str(&format!("{}|{}", o.describe(), x)),
            f1 != x,
            classes,
            format!("// {} [{}]\n{}", origin, o.describe(), x),
        );
    }
    // Root-cause split.  The formatter derives alignment groups, blank-line
    // handling and break decisions from the *source* line numbers; when the
    // first pass changes which tokens share a line, the second pass starts
    // from a different line structure and decides differently.  That family
    // (line structure of x != line structure of fmt(x)) is listed as a known
    // finding, one key per vertical_align value.  Everything else — a text
    // whose line structure the formatter keeps, yet fmt(fmt(x)) != fmt(x) —
    // is an unlisted violation with its difference class as signature.
    let class = classify(&f1, &f2, o);
    let align = if o.vertical_align { "align" } else { "noalign" };
    let sig = if !same_line_structure(x, &f1) {
        format!("restructured-lines/{align}")
    } else {
        format!("stable-lines:{class}")
    };
    let _ = domain;
    Outcome::fail(
        sig,
        format!("[{}] from {}\n{}", o.describe(), origin, first_diff(&f1, &f2)),
        json!({"origin": origin, "format": o.describe(), "x": x, "fmt1": f1, "fmt2": f2}),
    )
}

/// Same number of lines and, line by line, the same text once blanks are removed.
fn same_line_structure(a: &str, b: &str) -> bool {
    let la: Vec<&str> = a.lines().collect();
    let lb: Vec<&str> = b.lines().collect();
    la.len() == lb.len()
        && la
            .iter()
            .zip(lb.iter())
            .all(|(x, y)| x.split_whitespace().collect::<String>() == y.split_whitespace().collect::<String>())
}

/// Perturb blanks inside lines only (never at the start of a line, never
/// inside strings/comments): the set of lines and their tokens stay the same.
fn respace(d: &mut Draw, text: &str) -> String {
    let mut out = String::new();
    let mut in_block = false;
    for line in text.split_inclusive('\n') {
        let body = line.trim_end_matches(['\n', '\r']);
        let eol = &line[body.len()..];
        let indent_len = body.len() - body.trim_start().len();
        out.push_str(&body[..indent_len]);
        let rest = &body[indent_len..];
        let mut chars = rest.chars().peekable();
        let mut in_str = false;
        let mut in_line_comment = false;
        while let Some(c) = chars.next() {
            if in_block {
                out.push(c);
                if c == '*' && chars.peek() == Some(&'/') {
                    out.push(chars.next().unwrap());
                    in_block = false;
                }
                continue;
            }
            if in_line_comment {
                out.push(c);
                continue;
            }
            if in_str {
                out.push(c);
                if c == '\\' {
                    if let Some(n) = chars.next() {
                        out.push(n);
                    }
                } else if c == '"' {
                    in_str = false;
                }
                continue;
            }
            match c {
                '"' => {
                    in_str = true;
                    out.push(c);
                }
                '/' if chars.peek() == Some(&'/') => {
                    in_line_comment = true;
                    out.push(c);
                }
                '/' if chars.peek() == Some(&'*') => {
                    in_block = true;
                    out.push(c);
                }
                ' ' => {
                    // a run of blanks: redraw its length (>= 1)
                    while chars.peek() == Some(&' ') {
                        chars.next();
                    }
                    let n = match d.weighted(&[5, 2, 1]) {
                        0 => 1,
                        1 => d.usize_in(2, 6),
                        _ => d.usize_in(7, 30),
                    };
                    for _ in 0..n {
                        out.push(' ');
                    }
                }
                _ => out.push(c),
            }
        }
        out.push_str(eol);
    }
    out
}

pub fn run(ctx: &Ctx) {
    let corpus = front::load_corpus();

    // ---- corpus × grid ---------------------------------------------------
    if !ctx.replay_mode() {
        let grid: Vec<FmtOpts> = {
            let mut g = vec![];
            for &va in &[true, false] {
                for &(iw, mw) in &[(4usize, 120usize), (2, 40), (8, 20), (3, 1)] {
                    g.push(FmtOpts {
                        indent_width: iw,
                        max_width: mw,
                        vertical_align: va,
                        newline_style: 0,
                    });
                }
            }
            g
        };
        let grid = if ctx.is_quick() { grid[..4].to_vec() } else { grid };
        let jobs: Vec<(usize, usize)> = (0..corpus.len())
            .flat_map(|i| (0..grid.len()).map(move |j| (i, j)))
            .collect();
        let next = std::sync::atomic::AtomicUsize::new(0);
        std::thread::scope(|s| {
            for _ in 0..16 {
                s.spawn(|| {
                    loop {
                        let k = next.fetch_add(1, std::sync::atomic::Ordering::Relaxed);
                        if k >= jobs.len() {
                            break;
                        }
                        let (i, j) = jobs[k];
                        let (name, src) = &corpus[i];
                        let o = &grid[j];
                        let out = std::thread::scope(|s2| {
                            std::thread::Builder::new()
                                .stack_size(16 << 20)
                                .spawn_scoped(s2, || idempotent_in("as-shipped:", src, o, name))
                                .unwrap()
                                .join()
                                .unwrap()
                        });
                        ctx.record("corpus", out, json!({"file": name, "format": o.describe()}));
                    }
                });
            }
        });
    }

    // ---- reproducers of listed findings / recorded cases -------------------
    ctx.run_payloads("finding", |p| {
        let g = |k: &str| p.get(k).and_then(|v| v.as_u64()).unwrap_or(0);
        let o = FmtOpts {
            indent_width: g("indent_width") as usize,
            max_width: g("max_width") as usize,
            vertical_align: p.get("vertical_align").and_then(|v| v.as_bool()).unwrap_or(false),
            newline_style: g("newline_style") as u8,
        };
        let x = p.get("x").and_then(|t| t.as_str()).unwrap_or("").to_string();
        let origin = p.get("origin").and_then(|t| t.as_str()).unwrap_or("recorded").to_string();
        std::thread::Builder::new()
            .stack_size(16 << 20)
            .spawn(move || idempotent(&x, &o, &origin))
            .unwrap()
            .join()
            .unwrap()
    });

    // ---- re-laid corpus --------------------------------------------------
    let n = ctx.scale(3000, 200_000);
    ctx.run("relayout", CaseCfg::cases(n).choices(8000).stack_mb(16), |d| {
        let (name, src) = &corpus[d.below_usize(corpus.len())];
        let Some(pieces) = relayout::pieces(src) else {
            return Outcome::skip("corpus file does not tokenise");
        };
        let mut o = FmtOpts::draw(d);
        if d.chance(1, 2) {
            o.vertical_align = false; // the aligned half is dominated by a listed finding
        }
        let lo = LayoutOpts::draw(d);
        let x = relayout::relayout(d, &pieces, &lo);
        idempotent(&x, &o, name)
    });

    // ---- respaced formatted text ----------------------------------------
    let n = ctx.scale(3000, 200_000);
    ctx.run("respace", CaseCfg::cases(n).choices(8000).stack_mb(16), |d| {
        let (name, src) = &corpus[d.below_usize(corpus.len())];
        let o = FmtOpts::draw(d);
        let md = front::metadata(&o);
        let Some(base) = front::format_text(src, &md, "a.veryl") else {
            return Outcome::skip("corpus file does not parse");
        };
        let x = respace(d, &base);
        idempotent_in("respaced:", &x, &o, name)
    });

    ctx.assume("formatting is done as `veryl fmt` does it: Parser::parse, Analyzer::analyze_pass1 (for #[fmt]/#[align]), Formatter::format");
    ctx.finish(
        "exploration",
        "corpus files (testcases/veryl + std, ~320) re-laid with generated separators/comments, or formatted then re-spaced inside lines, x generated [format] settings (indent_width, max_width, vertical_align, newline_style); non-trivial = the input is not already its own formatting (fmt(x) != x); distinct by (settings, text) hash",
    );
}
