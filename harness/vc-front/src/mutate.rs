//! Token-level mutation of corpus files: the generator for C10 / C11.
//!
//! A case is a corpus file's token list with 1..k edits (delete, duplicate,
//! swap, replace by a token of the same file / of a keyword pool, splice a
//! token run from another place, truncate), re-joined with blanks/newlines.
//! Byte-level junk (stray bytes, unterminated comments/strings, multi-byte
//! text) is added on request (C10 only).

use vcore::Draw;
use vgen::relayout::{Piece, PieceKind};

pub const POOL: &[&str] = &[
    "module", "interface", "package", "function", "import", "enum", "struct", "union", "var", "let", "const",
    "param", "assign", "always_ff", "always_comb", "if", "else", "for", "in", "case", "switch", "default", "inst",
    "modport", "input", "output", "inout", "logic", "bit", "u32", "i64", "clock", "reset", "signed", "tri", "type",
    "return", "break", "pub", "proto", "alias", "embed", "include", "unsafe", "initial", "final", "generate", "inside",
    "outside", "as", "step", "repeat", "msb", "lsb", "true", "false", "bool", "string", "f32", "f64", "bbool", "lbool",
    "{", "}", "(", ")", "[", "]", "<", ">", ":", "::", ";", ",", ".", "..", "..=", "=", "+=", "-:", "+:", "->", "<:",
    ">:", "==", "!=", "+", "-", "*", "/", "%", "**", "&", "|", "^", "~", "!", "<<", ">>", "<<<", ">>>", "&&", "||",
    "?", "'", "#", "$sv", "$bits", "$clog2", "$display", "#[", "::<", "0", "1", "8'hff", "32'd0", "'1", "'x",
    "4'bxz01", "1.5", "1_000", "\"s\"", "a", "x", "_", "r#if",
];

const JUNK: &[&str] = &[
    "/*", "*/", "//", "\"", "\\", "\u{0}", "\u{7f}", "\u{feff}", "é", "日本", "🦀", "\u{202e}", "\r", "\t", "`", "@",
    "$", "\u{85}", "\u{2028}", "'", "''", "{{{", "}}}", "<<<<", "0x", "8'", "'h", "1e", "..=.", "#[[", "\"\\", "/*/",
];

pub struct Mutated {
    pub text: String,
    pub edits: usize,
    pub junk: usize,
}

pub fn mutate(d: &mut Draw, pieces: &[Piece], max_edits: usize, allow_junk: bool) -> Mutated {
    let mut toks: Vec<String> = pieces
        .iter()
        .filter(|p| matches!(p.kind, PieceKind::Token | PieceKind::Verbatim))
        .map(|p| p.text.clone())
        .collect();
    // work on a window so that cases stay small and shrink well
    if toks.len() > 40 && d.chance(3, 4) {
        let len = d.usize_in(20, toks.len().min(400));
        let start = d.below_usize(toks.len() - len + 1);
        // keep the head of the file (declaration opener) half of the time
        if d.bool() {
            toks = toks[start..start + len].to_vec();
        } else {
            toks.truncate(len);
        }
    }
    let n_edits = d.usize_in(1, max_edits.max(1));
    let mut junk = 0;
    for _ in 0..n_edits {
        if toks.is_empty() {
            toks.push("module".into());
        }
        let i = d.below_usize(toks.len());
        match d.weighted(&[4, 3, 3, 4, 3, 2, 1, if allow_junk { 4 } else { 0 }]) {
            0 => {
                toks.remove(i);
            }
            1 => {
                let t = toks[i].clone();
                toks.insert(i, t);
            }
            2 => {
                let j = d.below_usize(toks.len());
                toks.swap(i, j);
            }
            3 => {
                toks[i] = d.pick(POOL).to_string();
            }
            4 => {
                let j = d.below_usize(toks.len());
                toks[i] = toks[j].clone();
            }
            5 => {
                // splice a run from elsewhere
                let j = d.below_usize(toks.len());
                let l = d.usize_in(1, 12).min(toks.len() - j);
                let run: Vec<String> = toks[j..j + l].to_vec();
                for (k, t) in run.into_iter().enumerate() {
                    toks.insert((i + k).min(toks.len()), t);
                }
            }
            6 => {
                toks.truncate(i + 1);
            }
            _ => {
                junk += 1;
                toks.insert(i, d.pick(JUNK).to_string());
            }
        }
    }
    let mut text = String::new();
    for (k, t) in toks.iter().enumerate() {
        text.push_str(t);
        // mostly blanks, sometimes newlines / nothing (glued tokens re-lex differently: fine)
        match if k + 1 == toks.len() { 1 } else { d.weighted(&[12, 3, 1]) } {
            0 => text.push(' '),
            1 => text.push('\n'),
            _ => {}
        }
    }
    Mutated {
        text,
        edits: n_edits,
        junk,
    }
}

/// Pathological shapes: deep nesting and very long runs.
pub fn pathological(d: &mut Draw, big: bool) -> (String, String) {
    let depths_small: &[usize] = &[8, 64, 300, 1000, 1151, 1152, 1153, 2000];
    let depths_big: &[usize] = &[5_000, 20_000, 100_000];
    let n = if big { *d.pick(depths_big) } else { *d.pick(depths_small) };
    let kind = d.below(12);
    let (open, mid, close): (String, String, String) = match kind {
        0 => ("(".into(), "a".into(), ")".into()),
        1 => ("{".into(), "a".into(), "}".into()),
        2 => ("a[".into(), "0".into(), "]".into()),
        3 => ("~".into(), "a".into(), "".into()),
        4 => ("-".into(), "1".into(), "".into()),
        5 => ("if a ? (".into(), "1".into(), ") : 0".into()),
        6 => ("f(".into(), "a".into(), ")".into()),
        7 => ("{a, ".into(), "b".into(), "}".into()),
        8 => ("a + ".into(), "a".into(), "".into()),
        9 => ("a ** ".into(), "a".into(), "".into()),
        10 => ("a.".into(), "b".into(), "".into()),
        _ => ("a::".into(), "b".into(), "".into()),
    };
    let expr = format!("{}{}{}", open.repeat(n), mid, close.repeat(n));
    let name = format!("nest{kind}x{n}");
    let ctx = d.below(6);
    let text = match ctx {
        0 => format!("module M {{\n    let a: logic<8> = 1;\n    let y: logic<8> = {expr};\n}}\n"),
        1 => format!("module M {{\n    var y: logic;\n    always_comb {{\n        y = {expr};\n    }}\n}}\n"),
        2 => {
            // statement nesting
            let o = "if a { ".repeat(n);
            let c = "}".repeat(n);
            format!("module M {{\n    var y: logic; let a: logic = 1;\n    always_comb {{\n        y = 0; {o} y = 1; {c}\n    }}\n}}\n")
        }
        3 => {
            // generate nesting
            let o = "if X :g { ".repeat(n);
            let c = "}".repeat(n);
            format!("module M #(param X: bit = 1) {{\n {o} {c}\n}}\n")
        }
        4 => {
            // long flat declaration run
            let mut s = String::from("module M {\n");
            for i in 0..n {
                s.push_str(&format!("    var v{i}: logic;\n"));
            }
            s.push_str("}\n");
            s
        }
        _ => {
            // unterminated openers
            format!("module M {{ let y: logic = {}", open.repeat(n))
        }
    };
    (format!("{name}/ctx{ctx}"), text)
}

fn class_of(t: &str) -> u8 {
    const TYPES: &[&str] = &["logic", "bit", "u8", "u16", "u32", "u64", "i8", "i16", "i32", "i64", "f32", "f64", "bool", "clock", "reset", "string", "type", "tri", "signed"];
    const DIRS: &[&str] = &["input", "output", "inout", "modport", "import", "interface"];
    const BIN: &[&str] = &["+", "-", "*", "/", "%", "**", "&", "|", "^", "<<", ">>", "<<<", ">>>", "&&", "||", "==", "!=", "<:", ">:", "<=", ">=", "~^", "^~"];
    const UN: &[&str] = &["~", "!", "~&", "~|"];
    const KW: &[&str] = &["var", "let", "const", "param"];
    const BLK: &[&str] = &["always_ff", "always_comb", "initial", "final"];
    const ASG: &[&str] = &["=", "+=", "-=", "*=", "/=", "%=", "&=", "|=", "^=", "<<=", ">>=", "<<<=", ">>>="];
    if TYPES.contains(&t) {
        1
    } else if DIRS.contains(&t) {
        2
    } else if BIN.contains(&t) {
        3
    } else if UN.contains(&t) {
        4
    } else if KW.contains(&t) {
        5
    } else if BLK.contains(&t) {
        6
    } else if ASG.contains(&t) {
        9
    } else if t.starts_with(|c: char| c.is_ascii_digit() || c == '\'') {
        7
    } else if t.starts_with(|c: char| c.is_ascii_alphabetic() || c == '_') && !POOL[..66].contains(&t) {
        8
    } else {
        0
    }
}

/// Edits that mostly keep the text parseable: same-class token replacement
/// (identifier for identifier, type for type, operator for operator, number
/// for number, …), deletion / duplication of a `;`-terminated run.
pub fn mutate_gentle(d: &mut Draw, pieces: &[Piece], max_edits: usize) -> Mutated {
    let mut toks: Vec<String> = pieces
        .iter()
        .filter(|p| matches!(p.kind, PieceKind::Token | PieceKind::Verbatim))
        .map(|p| p.text.clone())
        .collect();
    let n_edits = d.usize_in(1, max_edits.max(1));
    const NUMS: &[&str] = &["0", "1", "2", "3", "7", "8", "32", "33", "64", "65", "100", "1'b1", "8'hff", "'0", "'1", "'x", "'z", "4'bxz01", "32'hffff_ffff", "64'd1", "128'h1", "0'd1", "1.5", "1e3"];
    for _ in 0..n_edits {
        if toks.len() < 4 {
            break;
        }
        let i = d.below_usize(toks.len());
        if d.chance(1, 5) {
            // statement-level: delete or duplicate the run ending at the next `;`
            let start = toks[..i].iter().rposition(|t| t == ";" || t == "{" || t == "}").map(|k| k + 1).unwrap_or(0);
            if let Some(end) = toks[i..].iter().position(|t| t == ";").map(|k| i + k + 1) {
                let run: Vec<String> = toks[start..end].to_vec();
                if run.iter().any(|t| t == "{" || t == "}") {
                    continue;
                }
                if d.bool() {
                    toks.drain(start..end);
                } else {
                    for (k, t) in run.into_iter().enumerate() {
                        toks.insert(end + k, t);
                    }
                }
            }
            continue;
        }
        let c = class_of(&toks[i]);
        if c == 0 {
            continue;
        }
        if c == 7 {
            toks[i] = d.pick(NUMS).to_string();
            continue;
        }
        // same-class token of this file (else of the pool)
        let cands: Vec<usize> = (0..toks.len()).filter(|&j| j != i && class_of(&toks[j]) == c && toks[j] != toks[i]).collect();
        if !cands.is_empty() && d.chance(3, 4) {
            let j = cands[d.below_usize(cands.len())];
            toks[i] = toks[j].clone();
        } else {
            let pool: Vec<&&str> = POOL.iter().filter(|t| class_of(t) == c).collect();
            if !pool.is_empty() {
                toks[i] = pool[d.below_usize(pool.len())].to_string();
            }
        }
    }
    let mut text = String::new();
    for t in toks.iter() {
        text.push_str(t);
        text.push(if d.chance(1, 6) { '\n' } else { ' ' });
    }
    Mutated {
        text,
        edits: n_edits,
        junk: 0,
    }
}

// ---------------------------------------------------------------------------
// C11: structural edits ("partially edited programs")
// ---------------------------------------------------------------------------

pub struct StructMutated {
    pub text: String,
    /// names of the edit operators applied
    pub ops: Vec<&'static str>,
}

fn is_open(t: &str) -> bool {
    matches!(t, "{" | "(" | "[" | "#[" | "'{")
}

fn is_close(t: &str) -> bool {
    matches!(t, "}" | ")" | "]")
}

/// Item (declaration / statement) starting at token `i`: up to and including
/// the `;` at relative depth 0, or the `}` that closes a `{` opened at
/// relative depth 0 (continuing over `else`).  `None` if `i` does not start a
/// balanced item.
fn item_end(toks: &[String], i: usize) -> Option<usize> {
    let mut depth = 0i32;
    let mut k = i;
    while k < toks.len() {
        let t = toks[k].as_str();
        if is_open(t) {
            depth += 1;
        } else if is_close(t) {
            depth -= 1;
            if depth < 0 {
                return None;
            }
            if depth == 0 && t == "}" {
                if toks.get(k + 1).map(|s| s == "else").unwrap_or(false) {
                    k += 1;
                    continue;
                }
                return Some(k + 1);
            }
        } else if t == ";" && depth == 0 {
            return Some(k + 1);
        }
        k += 1;
    }
    None
}

/// Token indices at which an item starts (after `;`, `{`, `}`), with the
/// brace depth there.
fn item_starts(toks: &[String]) -> Vec<(usize, usize)> {
    let mut out = Vec::new();
    let mut depth = 0usize;
    for i in 0..toks.len() {
        let prev = if i == 0 { ";" } else { toks[i - 1].as_str() };
        if matches!(prev, ";" | "{" | "}") && !matches!(toks[i].as_str(), "}" | "else" | ")" | "]" | ",") {
            out.push((i, depth));
        }
        let t = toks[i].as_str();
        if t == "{" {
            depth += 1;
        } else if t == "}" {
            depth = depth.saturating_sub(1);
        }
    }
    out
}

/// A balanced bracket group `( … )` / `[ … ]` / `{ … }` starting at `i`.
fn group_end(toks: &[String], i: usize) -> Option<usize> {
    if !is_open(&toks[i]) {
        return None;
    }
    let mut depth = 0i32;
    for k in i..toks.len() {
        let t = toks[k].as_str();
        if is_open(t) {
            depth += 1;
        } else if is_close(t) {
            depth -= 1;
            if depth == 0 {
                return Some(k + 1);
            }
        }
    }
    None
}

const DECL_KW: &[&str] = &[
    "var", "let", "const", "param", "function", "module", "interface", "package", "struct", "enum", "union", "type", "inst", "modport",
    "import", "alias", "proto",
];

/// 1–4 structural edits of a corpus token list.  `narrow` (quick tier) keeps
/// to the operators whose crash sites were harvested exhaustively.
pub fn mutate_struct(d: &mut Draw, file: &[String], donor: &[String], narrow: bool) -> StructMutated {
    let mut toks: Vec<String> = file.to_vec();
    let mut ops = Vec::new();
    // focus: keep a few top-level items only (small cases analyse fast and read well)
    if d.chance(2, 3) {
        let tops: Vec<(usize, usize)> = item_starts(&toks).into_iter().filter(|x| x.1 == 0).collect();
        if tops.len() > 2 {
            let keep_n = d.usize_in(1, 3.min(tops.len()));
            let first = d.below_usize(tops.len() - keep_n + 1);
            let s = tops[first].0;
            let e = if first + keep_n < tops.len() { tops[first + keep_n].0 } else { toks.len() };
            toks = toks[s..e].to_vec();
            ops.push("focus");
        }
    }
    let n_edits = d.usize_in(1, if narrow { 2 } else { 4 });
    const NUMS_ALL: &[&str] = &[
        "0", "1", "2", "3", "7", "8", "32", "33", "64", "65", "100", "1'b1", "8'hff", "'0", "'1", "'x", "'z", "4'bxz01", "32'hffff_ffff",
        "64'd1", "128'h1", "1.5", "1e3", "4294967296", "18446744073709551615",
    ];
    // the two giants only in the wide domain (a cast to a huge width is a listed hang)
    let nums: &[&str] = if narrow { &NUMS_ALL[..NUMS_ALL.len() - 2] } else { NUMS_ALL };
    for _ in 0..n_edits {
        if toks.len() < 4 {
            break;
        }
        let i = d.below_usize(toks.len());
        // weights: ident swap, same-class, rename-decl, delete item, duplicate item, splice own, splice donor, group swap, dir/type edit, number
        // quick tier: no duplication / splices / group swaps (their crash sites keep coming)
        let w: [u32; 10] = if narrow { [5, 4, 3, 4, 0, 0, 0, 0, 3, 2] } else { [5, 4, 3, 4, 2, 3, 4, 3, 3, 2] };
        match d.weighted(&w) {
            0 => {
                // identifier swap: an identifier occurrence becomes another identifier of the file
                let ids: Vec<usize> = (0..toks.len()).filter(|&j| class_of(&toks[j]) == 8).collect();
                if ids.len() >= 2 {
                    let a = ids[d.below_usize(ids.len())];
                    let b = ids[d.below_usize(ids.len())];
                    if toks[a] != toks[b] {
                        toks[a] = toks[b].clone();
                        ops.push("ident_swap");
                    }
                }
            }
            1 => {
                let c = class_of(&toks[i]);
                if c != 0 && c != 7 {
                    let cands: Vec<usize> = (0..toks.len()).filter(|&j| j != i && class_of(&toks[j]) == c && toks[j] != toks[i]).collect();
                    if !cands.is_empty() && d.chance(2, 3) {
                        let j = cands[d.below_usize(cands.len())];
                        toks[i] = toks[j].clone();
                    } else {
                        let pool: Vec<&&str> = POOL.iter().filter(|t| class_of(t) == c).collect();
                        if !pool.is_empty() {
                            toks[i] = pool[d.below_usize(pool.len())].to_string();
                        }
                    }
                    ops.push("same_class");
                }
            }
            2 => {
                // rename a declared name (uses dangle) or make it collide with another name
                let decls: Vec<usize> = (0..toks.len().saturating_sub(1))
                    .filter(|&j| DECL_KW.contains(&toks[j].as_str()) && class_of(&toks[j + 1]) == 8)
                    .collect();
                if !decls.is_empty() {
                    let j = decls[d.below_usize(decls.len())] + 1;
                    let ids: Vec<usize> = (0..toks.len()).filter(|&k| class_of(&toks[k]) == 8).collect();
                    toks[j] = if d.bool() || ids.is_empty() {
                        format!("{}_x", toks[j])
                    } else {
                        toks[ids[d.below_usize(ids.len())]].clone()
                    };
                    ops.push("rename_decl");
                }
            }
            3 | 4 | 5 => {
                let starts = item_starts(&toks);
                if starts.is_empty() {
                    continue;
                }
                let (s, _) = starts[d.below_usize(starts.len())];
                let Some(e) = item_end(&toks, s) else { continue };
                if e - s >= toks.len() {
                    continue;
                }
                let item: Vec<String> = toks[s..e].to_vec();
                match d.weighted(if narrow { &[1, 0, 0] } else { &[4, 2, 2] }) {
                    0 => {
                        toks.drain(s..e);
                        ops.push("delete_item");
                    }
                    1 => {
                        toks.splice(e..e, item);
                        ops.push("dup_item");
                    }
                    _ => {
                        // move / copy the item to another item boundary of the file
                        let (t, _) = starts[d.below_usize(starts.len())];
                        if t < s || t >= e {
                            toks.splice(t..t, item);
                            ops.push("splice_own");
                        }
                    }
                }
            }
            6 => {
                // sub-tree of another corpus file inserted at an item boundary
                let ds = item_starts(donor);
                let starts = item_starts(&toks);
                if ds.is_empty() || starts.is_empty() {
                    continue;
                }
                let (s, _) = ds[d.below_usize(ds.len())];
                let Some(e) = item_end(donor, s) else { continue };
                if e - s > 200 {
                    continue;
                }
                let (t, _) = starts[d.below_usize(starts.len())];
                toks.splice(t..t, donor[s..e].iter().cloned());
                ops.push("splice_donor");
            }
            7 => {
                // a bracket group replaced by another bracket group of the same kind
                let groups: Vec<usize> = (0..toks.len()).filter(|&j| matches!(toks[j].as_str(), "(" | "[")).collect();
                if groups.len() >= 2 {
                    let a = groups[d.below_usize(groups.len())];
                    let same: Vec<usize> = groups.iter().copied().filter(|&j| j != a && toks[j] == toks[a]).collect();
                    if same.is_empty() {
                        continue;
                    }
                    let b = same[d.below_usize(same.len())];
                    let (Some(ae), Some(be)) = (group_end(&toks, a), group_end(&toks, b)) else { continue };
                    if (a < b && ae > b) || (b < a && be > a) || be - b > 120 {
                        continue;
                    }
                    let rep: Vec<String> = toks[b..be].to_vec();
                    toks.splice(a..ae, rep);
                    ops.push("group_swap");
                }
            }
            8 => {
                // direction / type keyword edits
                const TYPES: &[&str] = &["logic", "bit", "u8", "u32", "u64", "i32", "i64", "f32", "f64", "bool", "clock", "reset", "string", "type", "tri logic", "signed logic", "clock_posedge", "reset_async_low"];
                const DIRS: &[&str] = &["input", "output", "inout", "modport", "interface", "import"];
                let cands: Vec<usize> = (0..toks.len()).filter(|&j| matches!(class_of(&toks[j]), 1 | 2)).collect();
                if !cands.is_empty() {
                    let j = cands[d.below_usize(cands.len())];
                    toks[j] = if class_of(&toks[j]) == 1 { d.pick(TYPES).to_string() } else { d.pick(DIRS).to_string() };
                    ops.push("dir_type_kw");
                }
            }
            _ => {
                let cands: Vec<usize> = (0..toks.len()).filter(|&j| class_of(&toks[j]) == 7).collect();
                if !cands.is_empty() {
                    let j = cands[d.below_usize(cands.len())];
                    toks[j] = d.pick(nums).to_string();
                    ops.push("number");
                }
            }
        }
    }
    let mut text = String::new();
    let mut depth = 0usize;
    for (k, t) in toks.iter().enumerate() {
        if t == "}" {
            depth = depth.saturating_sub(1);
        }
        text.push_str(t);
        let brk = matches!(t.as_str(), ";" | "{" | "}") || k + 1 == toks.len();
        if brk {
            text.push('\n');
            let next_close = toks.get(k + 1).map(|s| s == "}").unwrap_or(false);
            let ind = if t == "{" { depth + 1 } else { depth };
            for _ in 0..ind.saturating_sub(next_close as usize) {
                text.push_str("    ");
            }
        } else {
            text.push(' ');
        }
        if t == "{" {
            depth += 1;
        }
    }
    StructMutated { text, ops }
}
