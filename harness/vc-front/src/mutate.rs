//! Token-level mutation of corpus files: the generator for C10 / C11.
//!
//! A case is a corpus file's token list with 1..k edits (delete, duplicate,
//! swap, replace by a token of the same file / of a keyword pool, splice a
//! token run from another place, truncate), re-joined with blanks/newlines.
//! Byte-level junk (stray bytes, unterminated comments/strings, multi-byte
//! text) is added on request (C10 only).

use vcore::Draw;
use vgen::relayout::{Piece, PieceKind};

pub const POOL: &[&str] = &[
    "module", "interface", "package", "function", "import", "enum", "struct", "union", "var", "let", "const",
    "param", "assign", "always_ff", "always_comb", "if", "else", "for", "in", "case", "switch", "default", "inst",
    "modport", "input", "output", "inout", "logic", "bit", "u32", "i64", "clock", "reset", "signed", "tri", "type",
    "return", "break", "pub", "proto", "alias", "embed", "include", "unsafe", "initial", "final", "generate", "inside",
    "outside", "as", "step", "repeat", "msb", "lsb", "true", "false", "bool", "string", "f32", "f64", "bbool", "lbool",
    "{", "}", "(", ")", "[", "]", "<", ">", ":", "::", ";", ",", ".", "..", "..=", "=", "+=", "-:", "+:", "->", "<:",
    ">:", "==", "!=", "+", "-", "*", "/", "%", "**", "&", "|", "^", "~", "!", "<<", ">>", "<<<", ">>>", "&&", "||",
    "?", "'", "#", "$sv", "$bits", "$clog2", "$display", "#[", "::<", "0", "1", "8'hff", "32'd0", "'1", "'x",
    "4'bxz01", "1.5", "1_000", "\"s\"", "a", "x", "_", "r#if",
];

const JUNK: &[&str] = &[
    "/*", "*/", "//", "\"", "\\", "\u{0}", "\u{7f}", "\u{feff}", "é", "日本", "🦀", "\u{202e}", "\r", "\t", "`", "@",
    "$", "\u{85}", "\u{2028}", "'", "''", "{{{", "}}}", "<<<<", "0x", "8'", "'h", "1e", "..=.", "#[[", "\"\\", "/*/",
];

pub struct Mutated {
    pub text: String,
    pub edits: usize,
    pub junk: usize,
}

pub fn mutate(d: &mut Draw, pieces: &[Piece], max_edits: usize, allow_junk: bool) -> Mutated {
    let mut toks: Vec<String> = pieces
        .iter()
        .filter(|p| matches!(p.kind, PieceKind::Token | PieceKind::Verbatim))
        .map(|p| p.text.clone())
        .collect();
    // work on a window so that cases stay small and shrink well
    if toks.len() > 40 && d.chance(3, 4) {
        let len = d.usize_in(20, toks.len().min(400));
        let start = d.below_usize(toks.len() - len + 1);
        // keep the head of the file (declaration opener) half of the time
        if d.bool() {
            toks = toks[start..start + len].to_vec();
        } else {
            toks.truncate(len);
        }
    }
    let n_edits = d.usize_in(1, max_edits.max(1));
    let mut junk = 0;
    for _ in 0..n_edits {
        if toks.is_empty() {
            toks.push("module".into());
        }
        let i = d.below_usize(toks.len());
        match d.weighted(&[4, 3, 3, 4, 3, 2, 1, if allow_junk { 4 } else { 0 }]) {
            0 => {
                toks.remove(i);
            }
            1 => {
                let t = toks[i].clone();
                toks.insert(i, t);
            }
            2 => {
                let j = d.below_usize(toks.len());
                toks.swap(i, j);
            }
            3 => {
                toks[i] = d.pick(POOL).to_string();
            }
            4 => {
                let j = d.below_usize(toks.len());
                toks[i] = toks[j].clone();
            }
            5 => {
                // splice a run from elsewhere
                let j = d.below_usize(toks.len());
                let l = d.usize_in(1, 12).min(toks.len() - j);
                let run: Vec<String> = toks[j..j + l].to_vec();
                for (k, t) in run.into_iter().enumerate() {
                    toks.insert((i + k).min(toks.len()), t);
                }
            }
            6 => {
                toks.truncate(i + 1);
            }
            _ => {
                junk += 1;
                toks.insert(i, d.pick(JUNK).to_string());
            }
        }
    }
    let mut text = String::new();
    for (k, t) in toks.iter().enumerate() {
        text.push_str(t);
        // mostly blanks, sometimes newlines / nothing (glued tokens re-lex differently: fine)
        match if k + 1 == toks.len() { 1 } else { d.weighted(&[12, 3, 1]) } {
            0 => text.push(' '),
            1 => text.push('\n'),
            _ => {}
        }
    }
    Mutated {
        text,
        edits: n_edits,
        junk,
    }
}

/// Pathological shapes: deep nesting and very long runs.
pub fn pathological(d: &mut Draw, big: bool) -> (String, String) {
    let depths_small: &[usize] = &[8, 64, 300, 1000, 1151, 1152, 1153, 2000];
    let depths_big: &[usize] = &[5_000, 20_000, 100_000];
    let n = if big { *d.pick(depths_big) } else { *d.pick(depths_small) };
    let kind = d.below(12);
    let (open, mid, close): (String, String, String) = match kind {
        0 => ("(".into(), "a".into(), ")".into()),
        1 => ("{".into(), "a".into(), "}".into()),
        2 => ("a[".into(), "0".into(), "]".into()),
        3 => ("~".into(), "a".into(), "".into()),
        4 => ("-".into(), "1".into(), "".into()),
        5 => ("if a ? (".into(), "1".into(), ") : 0".into()),
        6 => ("f(".into(), "a".into(), ")".into()),
        7 => ("{a, ".into(), "b".into(), "}".into()),
        8 => ("a + ".into(), "a".into(), "".into()),
        9 => ("a ** ".into(), "a".into(), "".into()),
        10 => ("a.".into(), "b".into(), "".into()),
        _ => ("a::".into(), "b".into(), "".into()),
    };
    let expr = format!("{}{}{}", open.repeat(n), mid, close.repeat(n));
    let name = format!("nest{kind}x{n}");
    let ctx = d.below(6);
    let text = match ctx {
        0 => format!("module M {{\n    let a: logic<8> = 1;\n    let y: logic<8> = {expr};\n}}\n"),
        1 => format!("module M {{\n    var y: logic;\n    always_comb {{\n        y = {expr};\n    }}\n}}\n"),
        2 => {
            // statement nesting
            let o = "if a { ".repeat(n);
            let c = "}".repeat(n);
            format!("module M {{\n    var y: logic; let a: logic = 1;\n    always_comb {{\n        y = 0; {o} y = 1; {c}\n    }}\n}}\n")
        }
        3 => {
            // generate nesting
            let o = "if X :g { ".repeat(n);
            let c = "}".repeat(n);
            format!("module M #(param X: bit = 1) {{\n {o} {c}\n}}\n")
        }
        4 => {
            // long flat declaration run
            let mut s = String::from("module M {\n");
            for i in 0..n {
                s.push_str(&format!("    var v{i}: logic;\n"));
            }
            s.push_str("}\n");
            s
        }
        _ => {
            // unterminated openers
            format!("module M {{ let y: logic = {}", open.repeat(n))
        }
    };
    (format!("{name}/ctx{ctx}"), text)
}

fn class_of(t: &str) -> u8 {
    const TYPES: &[&str] = &["logic", "bit", "u8", "u16", "u32", "u64", "i8", "i16", "i32", "i64", "f32", "f64", "bool", "clock", "reset", "string", "type", "tri", "signed"];
    const DIRS: &[&str] = &["input", "output", "inout", "modport", "import", "interface"];
    const BIN: &[&str] = &["+", "-", "*", "/", "%", "**", "&", "|", "^", "<<", ">>", "<<<", ">>>", "&&", "||", "==", "!=", "<:", ">:", "<=", ">=", "~^", "^~"];
    const UN: &[&str] = &["~", "!", "~&", "~|"];
    const KW: &[&str] = &["var", "let", "const", "param"];
    const BLK: &[&str] = &["always_ff", "always_comb", "initial", "final"];
    const ASG: &[&str] = &["=", "+=", "-=", "*=", "/=", "%=", "&=", "|=", "^=", "<<=", ">>=", "<<<=", ">>>="];
    if TYPES.contains(&t) {
        1
    } else if DIRS.contains(&t) {
        2
    } else if BIN.contains(&t) {
        3
    } else if UN.contains(&t) {
        4
    } else if KW.contains(&t) {
        5
    } else if BLK.contains(&t) {
        6
    } else if ASG.contains(&t) {
        9
    } else if t.starts_with(|c: char| c.is_ascii_digit() || c == '\'') {
        7
    } else if t.starts_with(|c: char| c.is_ascii_alphabetic() || c == '_') && !POOL[..66].contains(&t) {
        8
    } else {
        0
    }
}

/// Edits that mostly keep the text parseable: same-class token replacement
/// (identifier for identifier, type for type, operator for operator, number
/// for number, …), deletion / duplication of a `;`-terminated run.
pub fn mutate_gentle(d: &mut Draw, pieces: &[Piece], max_edits: usize) -> Mutated {
    let mut toks: Vec<String> = pieces
        .iter()
        .filter(|p| matches!(p.kind, PieceKind::Token | PieceKind::Verbatim))
        .map(|p| p.text.clone())
        .collect();
    let n_edits = d.usize_in(1, max_edits.max(1));
    const NUMS: &[&str] = &["0", "1", "2", "3", "7", "8", "32", "33", "64", "65", "100", "1'b1", "8'hff", "'0", "'1", "'x", "'z", "4'bxz01", "32'hffff_ffff", "64'd1", "128'h1", "0'd1", "1.5", "1e3"];
    for _ in 0..n_edits {
        if toks.len() < 4 {
            break;
        }
        let i = d.below_usize(toks.len());
        if d.chance(1, 5) {
            // statement-level: delete or duplicate the run ending at the next `;`
            let start = toks[..i].iter().rposition(|t| t == ";" || t == "{" || t == "}").map(|k| k + 1).unwrap_or(0);
            if let Some(end) = toks[i..].iter().position(|t| t == ";").map(|k| i + k + 1) {
                let run: Vec<String> = toks[start..end].to_vec();
                if run.iter().any(|t| t == "{" || t == "}") {
                    continue;
                }
                if d.bool() {
                    toks.drain(start..end);
                } else {
                    for (k, t) in run.into_iter().enumerate() {
                        toks.insert(end + k, t);
                    }
                }
            }
            continue;
        }
        let c = class_of(&toks[i]);
        if c == 0 {
            continue;
        }
        if c == 7 {
            toks[i] = d.pick(NUMS).to_string();
            continue;
        }
        // same-class token of this file (else of the pool)
        let cands: Vec<usize> = (0..toks.len()).filter(|&j| j != i && class_of(&toks[j]) == c && toks[j] != toks[i]).collect();
        if !cands.is_empty() && d.chance(3, 4) {
            let j = cands[d.below_usize(cands.len())];
            toks[i] = toks[j].clone();
        } else {
            let pool: Vec<&&str> = POOL.iter().filter(|t| class_of(t) == c).collect();
            if !pool.is_empty() {
                toks[i] = pool[d.below_usize(pool.len())].to_string();
            }
        }
    }
    let mut text = String::new();
    for t in toks.iter() {
        text.push_str(t);
        text.push(if d.chance(1, 6) { '\n' } else { ' ' });
    }
    Mutated {
        text,
        edits: n_edits,
        junk: 0,
    }
}
