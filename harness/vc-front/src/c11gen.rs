//! C11 generators for programs that parse but are ill-typed, unresolved,
//! recursive, self-referential, limit-sized or simply long: the shapes the
//! hand-written error suite has one example of each at most.
//!
//! Every generator is a pure function of the `Draw`; the simplest variant
//! comes first so that shrinking the choice vector shrinks the program.

use vcore::Draw;

/// Longest flat operator chain (operators in one expression) the main
/// generator produces.  Measured thresholds on the unchanged tree (opt-level
/// 2 harness profile): see `known/C11/opchain-*.json`; chains at or above the
/// threshold overflow the analyzer's stack and are a listed finding.  The
/// cap sits well below the smallest threshold so that unrelated frame-size
/// changes do not flip cases near the edge.
pub const OPCHAIN_CAP: usize = 2000;

pub struct Shape {
    pub family: String,
    pub variant: usize,
    pub files: Vec<(String, String)>,
    /// `[build]` settings the shape wants (key, toml value)
    pub build: Vec<(String, String)>,
    pub classes: Vec<String>,
    /// recursion / limit shape: non-trivial by construction
    pub shaped: bool,
    /// the drawn instance belongs to a listed finding's excluded region
    pub excluded: Option<String>,
}

impl Shape {
    fn new(family: &str, variant: usize, text: String) -> Shape {
        Shape {
            family: family.to_string(),
            variant,
            files: vec![("a.veryl".to_string(), text)],
            build: vec![],
            classes: vec![],
            shaped: true,
            excluded: None,
        }
    }
    fn with(mut self, k: &str, v: impl ToString) -> Shape {
        self.build.push((k.to_string(), v.to_string()));
        self
    }
    fn class(mut self, c: impl Into<String>) -> Shape {
        self.classes.push(c.into());
        self
    }
}

/// Veryl.toml for a case: the shape's own `[build]` settings plus generated
/// presentation settings.  `exclude_std = true` except in a small share of
/// cases (analysing the 50 std files costs more than the case itself).
pub fn draw_toml(d: &mut Draw, build: &[(String, String)], quick: bool) -> String {
    let mut s = String::from("[project]\nname = \"prj\"\nversion = \"0.1.0\"\n[build]\nsources = [\"src\"]\ntarget = {type = \"directory\", path = \"target\"}\n");
    // quick tier: the harvested sub-domain (no std files, default presentation settings)
    let with_std = !quick && d.chance(1, 15);
    s.push_str(&format!("exclude_std = {}\n", !with_std));
    for (k, v) in build {
        s.push_str(&format!("{k} = {v}\n"));
    }
    if quick {
        return s;
    }
    let has = |k: &str| build.iter().any(|x| x.0 == k);
    if d.chance(1, 4) {
        if !has("clock_type") {
            s.push_str(&format!("clock_type = \"{}\"\n", d.pick(&["posedge", "negedge"])));
        }
        if !has("reset_type") {
            s.push_str(&format!("reset_type = \"{}\"\n", d.pick(&["async_low", "async_high", "sync_low", "sync_high"])));
        }
    }
    for k in ["omit_project_prefix", "strip_comments", "expand_inside_operation", "emit_cond_type", "flatten_array_interface", "hashed_mangled_name"] {
        if d.chance(1, 8) {
            s.push_str(&format!("{k} = true\n"));
        }
    }
    if d.chance(1, 3) {
        s.push_str("[format]\n");
        s.push_str(&format!("indent_width = {}\n", d.pick(&[4usize, 2, 1, 3, 8])));
        s.push_str(&format!("max_width = {}\n", d.pick(&[120usize, 80, 40, 20, 1, 400])));
        s.push_str(&format!("vertical_align = {}\n", d.bool()));
    }
    s
}

fn limit_near(d: &mut Draw, l: usize) -> usize {
    // at, just below, just above the limit; sometimes far on either side
    match d.weighted(&[3, 3, 3, 1, 1, 1]) {
        0 => l,
        1 => l.saturating_sub(1),
        2 => l + 1,
        3 => l / 2,
        4 => l * 2,
        _ => l + 2,
    }
}

pub fn shape(d: &mut Draw, quick: bool) -> Shape {
    match d.weighted(&[3, 3, 3, 3, 3, 4, 4, 4, 8]) {
        0 => rec_module(d),
        1 => rec_function(d),
        2 => rec_const(d),
        3 => rec_type(d),
        4 => rec_import(d),
        5 => limits(d, quick),
        6 => opchain(d, quick),
        7 => arith(d, quick),
        _ => kinds(d, quick),
    }
}

// ---------------------------------------------------------------------------

fn rec_module(d: &mut Draw) -> Shape {
    let v = d.below(12) as usize;
    let depth_limit = *d.pick(&[128usize, 3, 8, 32]);
    let total_limit = *d.pick(&[1048576usize, 16, 64, 1024]);
    let k = limit_near(d, depth_limit);
    let text = match v {
        0 => "module M {\n    inst u: M;\n}\n".to_string(),
        1 => "module M #(\n    param X: u32 = 1,\n) {\n    inst u: M #( X: X + 1 );\n}\n".to_string(),
        2 => format!("module M #(\n    param X: u32 = 0,\n) {{\n    if X <: {k} :g {{\n        inst u: M #( X: X + 1 );\n    }}\n}}\n"),
        3 => "module A {\n    inst b: B;\n}\nmodule B {\n    inst a: A;\n}\n".to_string(),
        4 => "module A {\n    inst b: B;\n}\nmodule B {\n    inst c: C;\n}\nmodule C {\n    inst a: A;\n    inst b: B;\n}\n".to_string(),
        5 => {
            // binary tree of instances: 2^K leaves against instance_total_limit
            let kk = d.usize_in(1, 11);
            format!("module T #(\n    param D: u32 = {kk},\n) {{\n    if D >: 0 :g {{\n        inst l: T #( D: D - 1 );\n        inst r: T #( D: D - 1 );\n    }}\n}}\n")
        }
        6 => "module M::<W: u32> {\n    inst u: M::<W>;\n}\nmodule Top {\n    inst u: M::<1>;\n}\n".to_string(),
        7 => {
            let base = *d.pick(&[4usize, 128, 1024]);
            let n = limit_near(d, base);
            format!("module L {{}}\nmodule M {{\n    inst u: L [{n}];\n}}\n")
        }
        8 => "interface I {\n    inst i: I;\n    var a: logic;\n}\nmodule M {\n    inst u: I;\n}\n".to_string(),
        9 => "proto module P;\nmodule M::<T: P> for P {\n    inst u: T;\n}\nmodule Top {\n    inst u: M::<M::<M>>;\n}\n".to_string(),
        10 => "module M (\n    a: input logic,\n    b: output logic,\n) {\n    var c: logic;\n    inst u: M (\n        a: b,\n        b: c,\n    );\n    assign b = c & a;\n}\n".to_string(),
        _ => "module M {\n    bind M <- u: M;\n}\n".to_string(),
    };
    Shape::new("rec_module", v, text)
        .with("instance_depth_limit", depth_limit)
        .with("instance_total_limit", total_limit)
        .class(format!("depth_limit={depth_limit}"))
}

fn rec_function(d: &mut Draw) -> Shape {
    let v = d.below(12) as usize;
    let lim = *d.pick(&[24usize, 2, 8]);
    let k = limit_near(d, lim);
    let user = *d.pick(&[
        "always_comb {\n        c = f(a);\n    }",
        "assign c = f(a);",
        "const K: u32 = f(1);\n    assign c = K;",
        "let _k: logic<f(1)> = 0;\n    assign c = 0;",
        "assign c = 0;",
    ]);
    let hdr = "module M (\n    a: input  logic<32>,\n    c: output logic<32>,\n) {\n";
    let body = match v {
        0 => "    function f (\n        x: input logic<32>,\n    ) -> logic<32> {\n        return f(x);\n    }\n".to_string(),
        1 => "    function f (\n        x: input logic<32>,\n    ) -> logic<32> {\n        return g(x);\n    }\n    function g (\n        x: input logic<32>,\n    ) -> logic<32> {\n        return f(x);\n    }\n".to_string(),
        2 => format!("    function f (\n        x: input u32,\n    ) -> u32 {{\n        if x == 0 {{\n            return 0;\n        }} else {{\n            return f(x - 1) + 1;\n        }}\n    }}\n    const D: u32 = f({k});\n"),
        3 => "    function f::<N: u32> () -> u32 {\n        return f::<N>();\n    }\n    const D: u32 = f::<1>();\n".to_string(),
        4 => "    function f (\n        x: input logic<f(1)>,\n    ) -> logic<32> {\n        return x;\n    }\n".to_string(),
        5 => "    function f (\n        x: input logic<32>,\n    ) -> logic<f(1)> {\n        return x;\n    }\n".to_string(),
        6 => "    function f (\n        x: input logic<32>,\n    ) -> logic<32> {\n        var t: logic<32>;\n        t = f(f(x));\n        return t;\n    }\n".to_string(),
        7 => "    function f (\n        x: input logic<32>,\n    ) {\n        f(x);\n    }\n".to_string(),
        8 => "    function f (\n        x: input  logic<32>,\n        y: output logic<32>,\n    ) {\n        f(x, y);\n    }\n".to_string(),
        9 => format!("    function f (\n        x: input u32,\n    ) -> u32 {{\n        var s: u32;\n        s = 0;\n        for i in 0..x {{\n            s = s + f(i);\n        }}\n        return s;\n    }}\n    const D: u32 = f({});\n", d.usize_in(0, 6)),
        10 => "    function f (\n        x: input logic<32>,\n    ) -> logic<32> {\n        return if x == 0 ? 0 : f(x - 1);\n    }\n    const D: u32 = f(3);\n".to_string(),
        _ => "    function f (\n        x: input logic<32> = f(1),\n    ) -> logic<32> {\n        return x;\n    }\n".to_string(),
    };
    let text = if d.chance(1, 4) {
        // the function lives in a package
        format!("package P {{\n{}}}\n{hdr}    import P::*;\n    {user}\n}}\n", body)
    } else {
        format!("{hdr}{body}    {user}\n}}\n")
    };
    Shape::new("rec_function", v, text).with("function_instance_depth_limit", lim).class(format!("fn_depth_limit={lim}"))
}

fn rec_const(d: &mut Draw) -> Shape {
    const ITEMS: &[&str] = &[
        "const A: u32 = A;",
        "const A: u32 = B;\n    const B: u32 = A;",
        "const A: u32 = A + 1;",
        "const A: u32 = B + 1;\n    const B: u32 = C + 1;\n    const C: u32 = A + 1;",
        "let a: logic<$bits(a)> = 0;",
        "var a: logic<W>;\n    const W: u32 = $bits(a);",
        "const W: u32 = $bits(T);\n    type T = logic<W>;",
        "const A: logic<A> = 1;",
        "const A: u32 = if A == 0 ? 1 : 0;",
        "const A: u32 = P::A;",
        "const A: u32 = A[0];",
        "enum E: logic<2> {\n        X = E::X,\n    }",
        "enum E: logic<2> {\n        X = E::Y,\n        Y = E::X,\n    }",
        "enum E: logic<$bits(E)> {\n        X,\n    }",
        "var a: logic<2>[$size(a)];",
        "let a: logic = a;",
        "let a: logic = b;\n    let b: logic = a;",
        "const A: u32 = f();\n    function f () -> u32 {\n        return A;\n    }",
        "const A: u32 = S::<A>::B;",
    ];
    let v = d.below_usize(ITEMS.len());
    let item = ITEMS[v];
    let w = d.weighted(&[4, 2, 2, 1, 1]);
    let text = match w {
        0 => format!("module M {{\n    {item}\n}}\n"),
        4 => format!("package P {{\n    const A: u32 = P::A;\n}}\nmodule M {{\n    {item}\n}}\n"),
        1 => format!("package P {{\n    {item}\n}}\nmodule M {{\n    import P::*;\n    let _x: u32 = A;\n}}\n"),
        2 => {
            // self-referential parameter defaults
            let p = *d.pick(&[
                "param P: u32 = P",
                "param P: u32 = Q,\n    param Q: u32 = P",
                "param P: u32 = P + 1",
                "param T: type = T",
                "param W: u32 = $bits(T),\n    param T: type = logic<W>",
                "const P: u32 = P",
            ]);
            format!("module M #(\n    {p},\n) {{\n    {item}\n}}\nmodule Top {{\n    inst u: M;\n}}\n")
        }
        _ => format!("package P::<T: u32> {{\n    const A: u32 = P::<T>::A;\n}}\nmodule M {{\n    const B: u32 = P::<1>::A;\n    {item}\n}}\n"),
    };
    Shape::new("rec_const", v * 8 + w, text)
}

fn rec_type(d: &mut Draw) -> Shape {
    const ITEMS: &[&str] = &[
        "struct S {\n        a: S,\n    }",
        "struct S {\n        a: T,\n    }\n    struct T {\n        a: S,\n    }",
        "type T = T;",
        "type A = B;\n    type B = A;",
        "union U {\n        a: U,\n        b: logic,\n    }",
        "struct S {\n        a: logic<$bits(S)>,\n    }",
        "enum E: E {\n        X,\n    }",
        "struct S {\n        a: S [2],\n    }",
        "struct S::<W: u32> {\n        a: S::<W>,\n    }\n    var _s: S::<1>;",
        "type T = T [2];",
        "type T = logic<$bits(T)>;",
        "struct S {\n        a: E,\n    }\n    enum E: S {\n        X,\n    }",
        "type T = S;\n    struct S {\n        a: T,\n    }",
        "struct S {\n        a: P::S,\n    }",
        "type T = P::T;",
        "struct S::<T: type> {\n        a: T,\n    }\n    var _s: S::<S::<S::<logic>>>;",
        "struct S::<T: type = S> {\n        a: T,\n    }\n    var _s: S::<>;",
    ];
    let v = d.below_usize(ITEMS.len());
    let item = ITEMS[v];
    let user = *d.pick(&["", "    var _v: S;\n", "    var _v: T;\n", "    let _v: u32 = $bits(S);\n", "    var _v: T [2];\n    assign _v = '{0, 0};\n", "    let _v: S = 0 as S;\n"]);
    let w = d.weighted(&[4, 2, 1, 1]);
    let text = match w {
        0 => format!("module M {{\n    {item}\n{user}}}\n"),
        1 => format!("package P {{\n    {item}\n}}\nmodule M {{\n    import P::*;\n{user}}}\n"),
        2 => format!("interface I {{\n    {item}\n{user}    modport mp {{\n        _v: input,\n    }}\n}}\nmodule M {{\n    inst i: I;\n}}\n"),
        _ => format!("package P {{\n    type T = P::T;\n    struct S {{\n        a: P::S,\n    }}\n}}\nmodule M {{\n    {item}\n{user}}}\n"),
    };
    Shape::new("rec_type", v * 8 + w, text)
}

fn rec_import(d: &mut Draw) -> Shape {
    const TEXTS: &[&str] = &[
        "package P {\n    import P::*;\n    const A: u32 = 1;\n}\nmodule M {\n    let _a: u32 = P::A;\n}\n",
        "package P {\n    import Q::*;\n    const A: u32 = B;\n}\npackage Q {\n    import P::*;\n    const B: u32 = A;\n}\nmodule M {\n    let _a: u32 = P::A;\n}\n",
        "module M {\n    import M::*;\n}\n",
        "package P {\n    import P::A;\n    const A: u32 = 1;\n}\n",
        "alias package A = A;\nmodule M {\n    let _a: u32 = A::X;\n}\n",
        "alias module A = A;\nmodule M {\n    inst u: A;\n}\n",
        "alias package A = B;\nalias package B = A;\nmodule M {\n    import A::*;\n}\n",
        "alias module A = B;\nalias module B = A;\nmodule M {\n    inst u: A;\n}\n",
        "package P::<T: u32> {\n    import P::<T>::*;\n    const A: u32 = T;\n}\nmodule M {\n    let _a: u32 = P::<1>::A;\n}\n",
        "proto package PP {\n    alias package Q: PP;\n}\npackage P for PP {\n    alias package Q = P;\n}\nmodule M {\n    let _a: u32 = P::Q::Q::Q::A;\n}\n",
        "interface I {\n    mixin I;\n    var a: logic;\n}\nmodule M {\n    inst i: I;\n}\n",
        "interface I {\n    mixin J;\n}\ninterface J {\n    mixin I;\n}\nmodule M {\n    inst i: I;\n}\n",
        "interface I {\n    var a: logic;\n    modport mp {\n        a: input,\n        ..same(mp)\n    }\n}\nmodule M {\n    inst i: I;\n}\n",
        "interface I {\n    var a: logic;\n    modport mp {\n        ..converse(mq)\n    }\n    modport mq {\n        ..converse(mp)\n    }\n}\nmodule M {\n    inst i: I;\n}\n",
        "package P {\n    import Q::*;\n}\npackage Q {\n    import R::*;\n}\npackage R {\n    import P::*;\n    const A: u32 = A;\n}\n",
        "import P::*;\npackage P {\n    const A: u32 = 1;\n}\nmodule M {\n    import M::A;\n    let _a: u32 = A;\n}\n",
        "module M {\n    import $sv::P::*;\n    import $std::*;\n    import $std::fifo::*;\n}\n",
        "proto module PM;\nalias module A = PM;\nmodule M for M {\n    inst u: A;\n}\n",
        "proto package PP {\n    type T = PP::T;\n}\npackage P for PP {\n    type T = P::T;\n}\n",
        "package P {\n    alias package Q = P;\n    const A: u32 = Q::Q::Q::A;\n}\n",
    ];
    let v = d.below_usize(TEXTS.len());
    Shape::new("rec_import", v, TEXTS[v].to_string())
}

// ---------------------------------------------------------------------------

fn limits(d: &mut Draw, quick: bool) -> Shape {
    let v = d.below(12) as usize;
    // configured limits at or below the defaults (a user who raises them asks for the depth)
    let size_limit = *d.pick(&[1048576usize, 16, 256, 4096]);
    let array_limit = *d.pick(&[128usize, 4, 16]);
    // iteration counts near a large limit are slow (a 4096-iteration statement loop costs
    // 15 CPU-s over the three pipelines): the quick tier stays at 1024
    let sl = if quick { size_limit.min(1024) } else { size_limit };
    let n = limit_near(d, sl);
    let a = limit_near(d, array_limit);
    // two-dimensional: a 256 x 256 array takes the post-pass-2 checks minutes (slow, not a crash)
    let a2 = a.min(48);
    let text = match v {
        0 => format!("module M {{\n    var a: logic<32>;\n    always_comb {{\n        a = 0;\n        for i in 0..{n} {{\n            a = a + i;\n        }}\n    }}\n}}\n"),
        1 => format!("module M {{\n    for i in 0..{n} :g {{\n        let _x: logic = 1;\n    }}\n}}\n"),
        2 => format!("module M {{\n    function f () -> u32 {{\n        var s: u32;\n        s = 0;\n        for i in 0..{n} {{\n            s = s + i;\n        }}\n        return s;\n    }}\n    const K: u32 = f();\n}}\n"),
        3 => format!("module M {{\n    var a: logic [{a}];\n    always_comb {{\n        for i in 0..{a} {{\n            a[i] = 0;\n        }}\n    }}\n}}\n"),
        4 => {
            let w = limit_near(d, (sl / a.max(1)).max(1));
            format!("module M {{\n    var a: logic<{w}> [{a}];\n    assign a = '{{default: 0}};\n}}\n")
        }
        5 => format!("module M {{\n    let _a: logic = {{1'b1 repeat {n}}};\n}}\n"),
        6 => {
            let i = d.usize_in(1, 64);
            let j = (sl / i).max(1);
            format!("module M {{\n    var a: logic<32>;\n    always_comb {{\n        a = 0;\n        for i in 0..{i} {{\n            for j in 0..{j} {{\n                a = a + i + j;\n            }}\n        }}\n    }}\n}}\n")
        }
        7 => format!("module M {{\n    var a: logic [{a2}, {a2}];\n    assign a = '{{default: '{{default: 0}}}};\n    let _b: logic = a[{}][{}];\n}}\n", a2.saturating_sub(1), a2),
        8 => format!("module M {{\n    let _a: logic<{n}> = '1;\n    let _b: logic<{n}> = _a + 1;\n    let _c: logic = _b[{}];\n}}\n", n.saturating_sub(1)),
        9 => format!("module M {{\n    var a: logic<4>;\n    always_comb {{\n        a = 0;\n        for i in 0..{n} step += 0 {{\n            a = 1;\n        }}\n    }}\n}}\n"),
        10 => format!("module M {{\n    var a: logic<4>;\n    always_comb {{\n        a = 0;\n        for i in rev 0..{} {{\n            a = a + 1;\n            if i == 1 {{\n                break;\n            }}\n        }}\n    }}\n}}\n", n.min(5000)),
        _ => format!("module M {{\n    for i in 0..{} :g {{\n        for j in 0..{} :h {{\n            var a: logic [{a}];\n            assign a = '{{default: 0}};\n        }}\n    }}\n}}\n", d.usize_in(1, 8), d.usize_in(1, 8)),
    };
    Shape::new("limits", v, text)
        .with("evaluate_size_limit", size_limit)
        .with("evaluate_array_limit", array_limit)
        .class(format!("size_limit={size_limit}"))
}

fn log_len(d: &mut Draw, cap: usize) -> usize {
    // log-uniform in [2, cap]
    let bits = (usize::BITS - cap.leading_zeros()) as usize;
    let b = d.usize_in(1, bits);
    let hi = ((1usize << b) - 1).min(cap).max(2);
    let lo = (1usize << (b - 1)).max(2).min(hi);
    d.usize_in(lo, hi)
}

/// Flat and nested long expressions / statement ladders.
fn opchain(d: &mut Draw, quick: bool) -> Shape {
    let v = d.below(14) as usize;
    let cap = if quick { OPCHAIN_CAP } else { OPCHAIN_CAP };
    let n = log_len(d, cap);
    // nesting is capped by the parser itself (production depth 1152): stay under it
    let deep = n.min(150);
    let expr = match v {
        0 => format!("{}a", "a + ".repeat(n)),
        1 => format!("{}a", "~".repeat(n.min(1000))),
        2 => format!("{}a{}", "(".repeat(deep), ")".repeat(deep)),
        3 => format!("{}a{}", "{".repeat(deep), "}".repeat(deep)),
        4 => format!("a{}", "[0]".repeat(n.min(1000))),
        5 => format!("{}0", "if a == 0 ? 1 : ".repeat(deep)),
        6 => format!("{}a{}", "f(".repeat(deep), ")".repeat(deep)),
        7 => format!("{}a", "a ** ".repeat(n)),
        8 => format!("s{}", ".m".repeat(n.min(1000))),
        9 => format!("P{}", "::Q".repeat(n.min(1000))),
        10 => format!("{{{}a}}", "a, ".repeat(n)),
        11 => format!("{}a", "a && ".repeat(n)),
        12 => format!("{}a", "a <: ".repeat(n)),
        _ => format!("{}a", "a as u32 + ".repeat(n)),
    };
    let ctx = d.below(7);
    let text = match ctx {
        0 => format!("module M {{\n    let a: logic<8> = 1;\n    let _y: logic<8> = {expr};\n}}\n"),
        1 => format!("module M {{\n    let a: logic<8> = 1;\n    var y: logic<8>;\n    always_comb {{\n        y = {expr};\n    }}\n}}\n"),
        2 => format!("module M {{\n    const a: u32 = 1;\n    const Y: u32 = {expr};\n}}\n"),
        3 => format!("module M {{\n    const a: u32 = 1;\n    var _y: logic<{expr}>;\n}}\n"),
        4 => {
            // statement ladder instead of an expression
            let o = "if a == 1 { y = 1; } else ".repeat(n.min(500));
            format!("module M {{\n    let a: logic<8> = 1;\n    var y: logic<8>;\n    always_comb {{\n        {o} {{ y = 0; }}\n    }}\n}}\n")
        }
        5 => {
            let arms: String = (0..n.min(3000)).map(|i| format!("            {i}: y = {};\n", i % 7)).collect();
            format!("module M {{\n    let a: logic<16> = 1;\n    var y: logic<8>;\n    always_comb {{\n        case a {{\n{arms}            default: y = 0;\n        }}\n    }}\n}}\n")
        }
        _ => {
            let nest = "if a == 1 { ".repeat(deep);
            format!("module M {{\n    let a: logic<8> = 1;\n    var y: logic<8>;\n    always_comb {{\n        y = 0;\n        {nest} y = 1; {}\n    }}\n}}\n", "}".repeat(deep))
        }
    };
    let mut s = Shape::new("opchain", v, text).class(format!("chain_len~2^{}", usize::BITS - n.leading_zeros())).class(format!("chain_ctx={ctx}"));
    s.shaped = n >= 64;
    s
}

/// Extreme constants in width / index / shift / repeat / cast positions.
fn arith(d: &mut Draw, quick: bool) -> Shape {
    const VALS: &[&str] = &[
        "0", "1", "-1", "0 - 1", "4294967295", "4294967296", "18446744073709551615", "18446744073709551616", "1 << 31", "1 << 32", "1 << 63", "1 << 64",
        "1 << 100000", "2 ** 31", "2 ** 32", "2 ** 64", "2 ** 1000", "1 / 0", "1 % 0", "0 / 0", "$clog2(0)", "$clog2(1)", "$clog2(-1)", "1.5", "1e30",
        "\"abc\"", "'0", "'1", "'x", "'z", "8'hxx", "0'd0", "65'h1_0000_0000_0000_0000", "128'hffffffff_ffffffff_ffffffff_ffffffff", "1000'd1", "-(1 << 63)",
        "32'sh80000000", "(-2147483648) / (-1)", "(1 << 63) / (-1)", "~0", "!0", "$bits(logic<0>)", "$bits(W)", "W", "W - 1", "W - 2", "W + 1", "W * W",
        "if W == 0 ? 0 : 1 / 0", "{1'b1 repeat 65}", "{W{1'b1}}", "true", "false", "1 <<< 70", "(-1) >>> 70", "1 >> -1", "1 << -1", "2 ** -1", "0 ** 0",
        "0 ** -1", "(-1) ** 4294967297", "8'd255 + 8'd1", "$signed(8'hff)", "$unsigned(-1)", "$size(a)", "msb", "lsb", "a", "a[0]", "_",
    ];
    // cast targets: a cast of an operator expression to a huge width builds a huge mask
    // (listed finding hang:arith) — targets are drawn from values known to be small
    const CAST_VALS: &[&str] = &["0", "1", "8", "65", "W", "1.5", "\"abc\"", "'x", "true", "a", "_", "msb", "$clog2(0)", "1 / 0", "0'd0", "8'hxx", "u8", "i64", "bool"];
    let p = |d: &mut Draw| d.pick(VALS).to_string();
    // quick tier: one item, one extreme value, the other holes benign (a domain small
    // enough to be harvested exhaustively); thorough: 1-3 items, every hole extreme
    let n_items = if quick { 1 } else { d.usize_in(1, 3) };
    let mut items = String::new();
    let mut variant = 0;
    let mut has_cast = false;
    for k in 0..n_items {
        let v = d.below(30) as usize;
        if k == 0 {
            variant = v;
        }
        let (mut x, mut y, mut z) = (p(d), p(d), p(d));
        if quick {
            match d.below(3) {
                0 => {
                    y = "1".into();
                    z = "3".into();
                }
                1 => {
                    x = "2".into();
                    z = "3".into();
                }
                _ => {
                    x = "2".into();
                    y = "1".into();
                }
            }
        }
        if v == 12 {
            has_cast = true;
            y = d.pick(CAST_VALS).to_string();
        }
        let it = match v {
            0 => format!("var _v{k}: logic<{x}>;"),
            1 => format!("var _v{k}: logic<{x}, {y}>;"),
            2 => format!("var _v{k}: logic [{x}];"),
            3 => format!("let _v{k}: logic<8> = a[{x}];"),
            4 => format!("let _v{k}: logic<8> = a[{x}:{y}];"),
            5 => format!("let _v{k}: logic<8> = a[{x}+:{y}];"),
            6 => format!("let _v{k}: logic<8> = a[{x}-:{y}];"),
            7 => format!("let _v{k}: logic<8> = a[{x} step {y}];"),
            8 => format!("let _v{k}: logic<8> = {{a repeat {x}}};"),
            9 => format!("let _v{k}: logic<8> = a << {x};"),
            10 => format!("let _v{k}: logic<8> = a >>> {x};"),
            11 => format!("let _v{k}: logic<8> = a ** {x};"),
            12 => format!("let _v{k}: logic<8> = ({x}) as {y};"),
            13 => format!("let _v{k}: logic<8> = ({x}) as u8;"),
            14 => format!("const C{k}: u32 = {x};"),
            15 => format!("const C{k}: i64 = ({x}) + ({y});"),
            16 => format!("const C{k}: bit<{x}> = {y};"),
            17 => format!("let _v{k}: logic<8> = b[{x}][{y}];"),
            18 => format!("let _v{k}: logic<8> = a[msb - {x}:lsb + {y}];"),
            19 => format!("let _v{k}: logic = a inside {{{x}, {y}..{z}}};"),
            20 => format!("let _v{k}: logic<8> = case a {{\n        {x}: 1,\n        {y}..={z}: 2,\n        default: 3,\n    }};"),
            21 => format!("enum E{k}: logic<{x}> {{\n        P{k} = {y},\n        Q{k} = {z},\n    }}"),
            22 => format!("enum E{k} {{\n        P{k} = {x},\n        Q{k},\n    }}"),
            23 => format!("struct S{k} {{\n        m: logic<{x}>,\n        n: logic<{y}>,\n    }}\n    let _v{k}: S{k} = {z};"),
            24 => format!("for i in {x}..{y} :g{k} {{\n        let _w: logic = 1;\n    }}"),
            25 => format!("var v{k}: logic<8>;\n    always_comb {{\n        v{k} = 0;\n        for i in {x}..{y} step += {z} {{\n            v{k} = v{k} + 1;\n        }}\n    }}"),
            26 => format!("inst u{k}: Sub #(\n        W: {x},\n    ) (\n        p: {y},\n    );"),
            27 => format!("var v{k}: logic<8>;\n    always_comb {{\n        case a {{\n            {x}, {y}: v{k} = 1;\n            {z}    : v{k} = 2;\n            default: v{k} = 0;\n        }}\n    }}"),
            28 => format!("var v{k}: logic<8>;\n    assign v{k}[{x}:{y}] = {z};"),
            _ => format!("let _v{k}: logic<8> = $clog2({x}) + $bits({y}) + $size(b, {z});"),
        };
        items.push_str("    ");
        items.push_str(&it);
        items.push('\n');
    }
    let w = if quick || has_cast { "4".to_string() } else { p(d) };
    let text = format!(
        "module Sub #(\n    param W: u32 = 1,\n) (\n    p: input logic<W>,\n) {{}}\nmodule M #(\n    param W: u32 = {w},\n) {{\n    let a: logic<8> = 1;\n    var b: logic<8> [4];\n    assign b = '{{default: 0}};\n{items}}}\n"
    );
    let mut s = Shape::new("arith", variant, text);
    s.shaped = false;
    s
}

// ---------------------------------------------------------------------------

/// Kind confusion / unresolved names: one definition of every kind of thing,
/// then use sites whose holes are filled with names of *any* kind.
fn kinds(d: &mut Draw, quick: bool) -> Shape {
    const PRELUDE: &str = "package P {\n    const C: u32 = 1;\n    type T = logic<4>;\n    struct S {\n        x: logic<2>,\n        y: logic<2>,\n    }\n    enum E {\n        A,\n        B,\n    }\n    function f (\n        a: input logic<4>,\n    ) -> logic<4> {\n        return a;\n    }\n}\npackage GP::<N: u32> {\n    const C: u32 = N;\n    type T = logic<N>;\n}\ninterface I {\n    var a: logic<4>;\n    var b: logic<4>;\n    modport mp {\n        a: input ,\n        b: output,\n    }\n    function g () -> logic<4> {\n        return a;\n    }\n}\ninterface GI::<N: u32> {\n    var a: logic<N>;\n    modport mp {\n        a: input,\n    }\n}\nproto module PM (\n    i: input  logic<4>,\n    o: output logic<4>,\n);\nmodule Sub for PM #(\n    param W: u32 = 4,\n) (\n    i: input  logic<4>,\n    o: output logic<4>,\n) {\n    assign o = i;\n}\nmodule GM::<N: u32> (\n    i: input  logic<N>,\n    o: output logic<N>,\n) {\n    assign o = i;\n}\nmodule IM (\n    m: modport I::mp,\n) {\n    assign m.b = m.a;\n}\n";
    const NAMES: &[&str] = &[
        "v", "w", "c", "LC", "LT", "LS", "LE", "LE::A", "ls", "ls.x", "lf", "u", "ui", "ui.a", "ui.mp", "ui.g", "P", "P::C", "P::T", "P::S", "P::E", "P::E::A", "P::f",
        "GP", "GP::<2>", "GP::<2>::C", "GP::<2>::T", "GP::<v>::C", "GP::<P>::C", "I", "I::mp", "GI", "GI::<2>", "GI::<2>::mp", "Sub", "GM", "GM::<2>", "IM", "PM", "M",
        "zz", "zz::yy", "P::zz", "v.zz", "$sv::pkg::x", "$std::fifo", "clk", "rst", "i_p", "o_p", "m_p", "m_p.a", "gi", "logic", "u32", "1", "\"s\"", "_",
    ];
    let nm = |d: &mut Draw| d.pick(NAMES).to_string();
    // quick tier: one use site with one arbitrary name, the other holes a plain variable
    let n_items = if quick { 1 } else { d.usize_in(1, 4) };
    let mut items = String::new();
    let mut variant = 0;
    let n_templates = if quick { 44 } else { 56 };
    for k in 0..n_items {
        let v = d.below(n_templates) as usize;
        if k == 0 {
            variant = v;
        }
        let (mut x, mut y, mut z) = (nm(d), nm(d), nm(d));
        if quick {
            match d.below(3) {
                0 => {
                    y = "v".into();
                    z = "v".into();
                }
                1 => {
                    x = "v".into();
                    z = "v".into();
                }
                _ => {
                    x = "v".into();
                    y = "v".into();
                }
            }
        }
        let it = match v {
            0 => format!("inst n{k}: {x};"),
            1 => format!("inst n{k}: {x} (\n        i: {y},\n        o: {z},\n    );"),
            2 => format!("inst n{k}: {x} #(\n        W: {y},\n    ) (\n        i: v,\n        o: _,\n    );"),
            3 => format!("var n{k}: {x};"),
            4 => format!("var n{k}: {x}<{y}>;"),
            5 => format!("let n{k}: {x} = {y};"),
            6 => format!("const N{k}: {x} = {y};"),
            7 => format!("type N{k} = {x};"),
            8 => format!("assign {x} = {y};"),
            9 => format!("always_comb {{\n        {x} = {y};\n    }}"),
            10 => format!("always_comb {{\n        {x}({y});\n    }}"),
            11 => format!("always_comb {{\n        if {x} {{\n            w = {y};\n        }}\n    }}"),
            12 => format!("always_comb {{\n        for {x} in {y}..{z} {{\n            w = i;\n        }}\n    }}"),
            13 => format!("always_comb {{\n        case {x} {{\n            {y}: w = 1;\n            default: w = {z};\n        }}\n    }}"),
            14 => format!("always_ff ({x}, {y}) {{\n        if_reset {{\n            r = 0;\n        }} else {{\n            r = {z};\n        }}\n    }}"),
            15 => format!("always_ff ({x}) {{\n        r = {y};\n    }}"),
            16 => format!("import {x}::*;"),
            17 => format!("import {x};"),
            18 => format!("function h{k} (\n        a: input {x},\n    ) -> {y} {{\n        return {z};\n    }}"),
            19 => format!("assign w = {x} + {y};"),
            20 => format!("assign w = {x}[{y}];"),
            21 => format!("assign w = {x}[{y}:{z}];"),
            22 => format!("assign w = {x}.x;"),
            23 => format!("assign w = {x}::A;"),
            24 => format!("assign w = {x} as {y};"),
            25 => format!("assign w = {x}({y});"),
            26 => format!("assign w = {{{x}, {y}}};"),
            27 => format!("assign w = {{{x} repeat {y}}};"),
            28 => format!("assign w = {x} inside {{{y}, {z}..{z}}};"),
            29 => format!("assign w = if {x} ? {y} : {z};"),
            30 => format!("assign w = case {x} {{\n        {y}: 1,\n        default: {z},\n    }};"),
            31 => format!("assign w = $bits({x}) + $clog2({y}) + $size({z});"),
            32 => format!("assign w = v[msb:{x}] + {y}[lsb];"),
            33 => format!("assign ls = {x}'{{x: {y}, y: {z}}};"),
            34 => format!("enum N{k}: {x} {{\n        K{k} = {y},\n    }}"),
            35 => format!("struct N{k} {{\n        m: {x},\n        n: {y}<{z}>,\n    }}"),
            36 => format!("alias module N{k} = {x};"),
            37 => format!("alias package N{k} = {x};"),
            38 => format!("inst n{k}: GM::<{x}> (\n        i: {y},\n        o: _,\n    );"),
            39 => format!("let n{k}: GP::<{x}>::T = {y};"),
            40 => format!("inst n{k}: IM (\n        m: {x},\n    );"),
            41 => format!("connect {x} <> {y};"),
            42 => format!("bind {x} <- n{k}: {y} (\n        i: {z},\n        o: _,\n    );"),
            43 => format!("assign {x}.a = {y};"),
            44 => format!("#[sv(\"{x}\")]\n    var n{k}: logic;"),
            45 => format!("#[allow({x})]\n    var n{k}: logic;"),
            46 => format!("#[ifdef({x})]\n    var n{k}: logic;"),
            47 => format!("#[cond_type({x})]\n    always_comb {{\n        case v {{\n            0: w = 1;\n            default: w = 0;\n        }}\n    }}"),
            48 => format!("#[fmt({x})]\n    assign w = {y};"),
            49 => format!("#[align({x})]\n    var n{k}: logic;"),
            50 => format!("#[{x}({y})]\n    var n{k}: logic;"),
            51 => format!("union N{k} {{\n        m: {x},\n        n: {y},\n    }}"),
            52 => format!("initial {{\n        $display(\"%d\", {x});\n        {y}({z});\n    }}"),
            53 => format!("unsafe (cdc) {{\n        assign {x} = {y};\n    }}"),
            54 => format!("embed (inline) sv{{{{{{\n        \\{{ {x} \\}}\n    }}}}}}"),
            _ => format!("var n{k}: {x} [{y}];\n    assign n{k}[{z}] = 0;"),
        };
        items.push_str("    ");
        items.push_str(&it);
        items.push('\n');
    }
    let ports = format!(
        "    clk: input clock,\n    rst: input reset,\n    i_p: input logic<4>,\n    o_p: output logic<4>,\n    m_p: modport I::mp,\n    gi: modport GI::<2>::mp,\n    x_p: {} {},\n",
        if quick { "input" } else { *d.pick(&["input", "output", "inout", "modport", "interface", "input"]) },
        if quick { "logic<4>".to_string() } else { nm(d) }
    );
    let text = format!(
        "{PRELUDE}module M (\n{ports}) {{\n    const LC: u32 = 2;\n    type LT = logic<4>;\n    struct LS {{\n        x: logic<2>,\n        y: logic<2>,\n    }}\n    enum LE {{\n        A,\n        B,\n    }}\n    function lf (\n        a: input logic<4>,\n    ) -> logic<4> {{\n        return a;\n    }}\n    let v: logic<4> = i_p;\n    let c: logic<4> = LC;\n    var w: logic<4>;\n    var r: logic<4>;\n    var ls: LS;\n    inst ui: I;\n    inst u: Sub (\n        i: v,\n        o: _,\n    );\n    assign o_p = w;\n{items}}}\n"
    );
    let mut s = Shape::new("kinds", variant, text);
    s.shaped = false;
    s
}

/// Listed finding `hang:rec_const`: a constant / type whose own
/// definition refers to itself at least twice is evaluated 2^depth times
/// (minutes of CPU).  Such items are excluded by construction (token-level
/// over-approximation) and counted; the reproducer is replayed every run.
pub fn branching_self_reference(text: &str) -> bool {
    // tokens: identifiers and single punctuation characters
    let mut toks: Vec<&str> = Vec::new();
    let b = text.as_bytes();
    let mut i = 0;
    while i < b.len() {
        let c = b[i];
        if c.is_ascii_alphanumeric() || c == b'_' || c == b'$' {
            let s = i;
            while i < b.len() && (b[i].is_ascii_alphanumeric() || b[i] == b'_' || b[i] == b'$') {
                i += 1;
            }
            toks.push(&text[s..i]);
        } else {
            if !c.is_ascii_whitespace() && c < 0x80 {
                toks.push(&text[i..i + 1]);
            }
            i += 1;
        }
    }
    for i in 0..toks.len().saturating_sub(1) {
        let kw = toks[i];
        if !matches!(kw, "const" | "param" | "struct" | "union" | "type" | "enum") {
            continue;
        }
        let name = toks[i + 1];
        if !name.starts_with(|c: char| c.is_ascii_alphabetic() || c == '_') {
            continue;
        }
        let braced = matches!(kw, "struct" | "union" | "enum");
        let mut depth = 0i32;
        let mut refs = 0;
        for t in &toks[i + 2..] {
            match *t {
                "{" | "(" | "[" => depth += 1,
                "}" | ")" | "]" => {
                    depth -= 1;
                    if depth < 0 || (depth == 0 && braced && *t == "}") {
                        break;
                    }
                }
                ";" if depth <= 0 => break,
                "," if depth <= 0 && kw == "param" => break,
                x if x == name => refs += 1,
                _ => {}
            }
        }
        if refs >= 2 {
            return true;
        }
    }
    false
}
