//! C24 — build results do not depend on file order or the run.
//!
//! Generator: a project of 2..6 files drawn from /repo/testcases/veryl (one
//! project upstream, with cross-file references) and a generated permutation.
//! Oracle (differential / metamorphic): for an error-free project, the
//! emitted SystemVerilog and source-map bytes per file and the multiset of
//! diagnostics are identical for the sorted order, the permuted order, and a
//! repeated run of the sorted order.  In-process pipeline = what
//! crates/veryl/src/pipeline.rs runs (pass1 per file, post_pass1, pass2 per
//! file, post_pass2, emit).

use crate::front::{self, Built, FmtOpts};
use vcore::{CaseCfg, Ctx, Outcome, hash_str, json};

fn build_isolated(files: &[(String, String)], o: &FmtOpts) -> Option<Built> {
    let r = std::thread::scope(|s| {
        std::thread::Builder::new()
            .stack_size(16 << 20)
            .spawn_scoped(s, || front::build(files, &front::metadata(o), true))
            .expect("spawn")
            .join()
    });
    match r {
        Ok(b) => b,
        Err(p) => std::panic::resume_unwind(p),
    }
}

pub fn run(ctx: &Ctx) {
    let corpus: Vec<(String, String)> = front::load_corpus()
        .into_iter()
        .filter(|(n, _)| n.contains("/testcases/veryl/"))
        .map(|(n, s)| (n.rsplit('/').next().unwrap().to_string(), s))
        .collect();
    assert!(corpus.len() > 50);
    let n = ctx.scale(1500, 60_000);
    ctx.run("permute", CaseCfg::cases(n).choices(64), |d| {
        let k = d.usize_in(2, 6);
        let mut idx: Vec<usize> = vec![];
        // neighbours in the numbered corpus are more often related
        let base = d.below_usize(corpus.len());
        while idx.len() < k {
            let j = if d.chance(1, 2) { (base + d.below_usize(4)) % corpus.len() } else { d.below_usize(corpus.len()) };
            if !idx.contains(&j) {
                idx.push(j);
            }
        }
        idx.sort();
        let sorted: Vec<(String, String)> = idx.iter().map(|&i| corpus[i].clone()).collect();
        // a permutation != identity, by drawn swaps (Fisher-Yates)
        let mut perm: Vec<usize> = (0..k).collect();
        for i in (1..k).rev() {
            let j = d.below_usize(i + 1);
            perm.swap(i, j);
        }
        if perm.iter().enumerate().all(|(i, &p)| i == p) {
            perm.reverse();
        }
        let permuted: Vec<(String, String)> = perm.iter().map(|&i| sorted[i].clone()).collect();
        let o = FmtOpts::default();
        let Some(a) = build_isolated(&sorted, &o) else {
            return Outcome::skip("a file does not parse");
        };
        if a.has_error() {
            return Outcome::skip("project is not error-free (outside the property's domain)");
        }
        let names: Vec<&str> = sorted.iter().map(|x| x.0.as_str()).collect();
        let input = json!({"files": names, "perm": perm});
        let Some(b) = build_isolated(&permuted, &o) else {
            return Outcome::skip("a file does not parse");
        };
        let Some(a2) = build_isolated(&sorted, &o) else {
            return Outcome::skip("a file does not parse");
        };
        if a2.emitted != a.emitted || a2.diags != a.diags {
            return Outcome::fail("repeated-run-differs", format!("same order built twice differs: {names:?}"), input);
        }
        let (mut da, mut db) = (a.diags.clone(), b.diags.clone());
        da.sort();
        db.sort();
        if da != db {
            let only_a: Vec<_> = da.iter().filter(|x| !db.contains(x)).map(|x| format!("{}: {}", x.code, x.message)).collect();
            let only_b: Vec<_> = db.iter().filter(|x| !da.contains(x)).map(|x| format!("{}: {}", x.code, x.message)).collect();
            return Outcome::fail(
                "diagnostics-depend-on-order",
                format!("files {names:?} perm {perm:?}: only in sorted order {only_a:?}; only in permuted order {only_b:?}"),
                input,
            );
        }
        if b.emitted.len() != a.emitted.len() {
            return Outcome::fail("diagnostics-depend-on-order", "permuted order has errors, sorted has none".to_string(), input);
        }
        for (pi, &si) in perm.iter().enumerate() {
            if a.emitted[si].0 != b.emitted[pi].0 {
                return Outcome::fail(
                    "emitted-sv-depends-on-order",
                    format!("{} differs between orders (files {names:?} perm {perm:?})", names[si]),
                    input,
                );
            }
            if a.emitted[si].1 != b.emitted[pi].1 {
                return Outcome::fail(
                    "source-map-depends-on-order",
                    format!("{}.map differs between orders (files {names:?} perm {perm:?})", names[si]),
                    input,
                );
            }
        }
        let warn = !a.diags.is_empty();
        Outcome::pass(
            hash_str(&format!("{names:?}{perm:?}")),
            true,
            vec![format!("files={k}"), if warn { "has_warnings".into() } else { "no_warnings".into() }],
            format!("{names:?} perm {perm:?}"),
        )
    });
    ctx.assume("in-process pipeline over texts (no Veryl.toml / filelist / incremental cache); the CLI's own path ordering is not exercised");
    ctx.assume("projects that report an error in sorted order are skipped (the property is about error-free projects)");
    ctx.finish(
        "exploration",
        "2-6 files drawn from /repo/testcases/veryl (neighbour-biased) built in sorted order, a generated non-identity permutation, and sorted order again; every accepted case is non-trivial (a real permutation of an error-free multi-file project); distinct by (file set, permutation)",
    );
}
