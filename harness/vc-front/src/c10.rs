//! C10 — the parser terminates without crashing on every input, and a syntax
//! diagnostic's span lies inside the (newline-terminated) input.
//!
//! Sub-checks
//!  * `mutated`       corpus files under token-level edits and byte-level junk (in-process,
//!                    fresh 8 MiB thread = the CLI main thread's stack)
//!  * `pathological`  deep nesting / long runs, each in a *subprocess* (this binary,
//!                    `parse-one FILE`) so that a stack overflow is observed as a signal
//!                    and reported as a violation instead of killing the check
//!  * `bytes`         short strings over a junk-rich alphabet

use crate::{front, mutate};
use std::time::Duration;
use veryl_parser::{Parser, ParserError};
use vcore::{CaseCfg, Ctx, Outcome, hash_str, json};
use vgen::relayout;

/// Ok(true) parsed, Ok(false) rejected with a well-formed diagnostic.
pub fn parse_ok(text: &str) -> Result<bool, (String, String)> {
    let limit = text.len() + if text.ends_with('\n') { 0 } else { 1 };
    match Parser::parse(text, &std::path::Path::new("a.veryl")) {
        Ok(p) => {
            drop(p);
            Ok(true)
        }
        Err(ParserError::SyntaxError(e)) => {
            let (o, l) = (e.error_location.offset(), e.error_location.len());
            if o + l > limit {
                return Err((
                    "syntax-error-span-outside-input".into(),
                    format!("span offset={o} len={l} but the newline-terminated input has {limit} bytes"),
                ));
            }
            Ok(false)
        }
        Err(_) => Ok(false),
    }
}

pub fn parse_one_main(file: &str) -> i32 {
    let text = std::fs::read_to_string(file).expect("read");
    // the CLI parses on its main thread (8 MiB by default)
    let r = std::thread::Builder::new()
        .stack_size(8 << 20)
        .spawn(move || parse_ok(&text))
        .unwrap()
        .join();
    match r {
        Ok(Ok(true)) => 0,
        Ok(Ok(false)) => 3,
        Ok(Err((s, m))) => {
            println!("{s}: {m}");
            4
        }
        Err(_) => 101,
    }
}

pub fn run(ctx: &Ctx) {
    let corpus = front::load_corpus();
    let pieces: Vec<_> = corpus.iter().map(|(_, s)| relayout::pieces(s)).collect();

    let n = ctx.scale(20_000, 1_000_000);
    ctx.run("mutated", CaseCfg::cases(n).choices(3000), |d| {
        let i = d.below_usize(corpus.len());
        let Some(p) = &pieces[i] else {
            return Outcome::skip("corpus file does not tokenise");
        };
        let m = mutate::mutate(d, p, 6, true);
        match parse_ok(&m.text) {
            Ok(parsed) => Outcome::pass(
                hash_str(&m.text),
                true,
                vec![
                    if parsed { "accepted".into() } else { "rejected".into() },
                    format!("junk={}", m.junk.min(2)),
                ],
                m.text,
            ),
            Err((s, msg)) => Outcome::fail(s, msg, json!({"text": m.text})),
        }
    });

    let n = ctx.scale(5_000, 300_000);
    ctx.run("bytes", CaseCfg::cases(n).choices(400), |d| {
        let len = d.usize_in(0, 60);
        let mut s = String::new();
        for _ in 0..len {
            match d.weighted(&[6, 3, 2, 1]) {
                0 => s.push_str(*d.pick(mutate::POOL)),
                1 => s.push(' '),
                2 => s.push_str(*d.pick::<&str>(&["/*", "*/", "//", "\"", "\\", "\n", "é", "🦀", "\u{0}", "'", "$", "#", "`", "\r\n", "\u{feff}"])),
                _ => {
                    let c = char::from_u32(d.below(0x11_0000)).unwrap_or('\u{fffd}');
                    s.push(c);
                }
            }
        }
        match parse_ok(&s) {
            Ok(parsed) => Outcome::pass(
                hash_str(&s),
                !s.is_ascii() || s.contains("/*") || s.contains('"'),
                vec![if parsed { "accepted".into() } else { "rejected".into() }],
                s,
            ),
            Err((sig, msg)) => Outcome::fail(sig, msg, json!({"text": s})),
        }
    });

    let exe = std::env::current_exe().unwrap();
    let n = ctx.scale(160, 4000);
    let big = !ctx.is_quick();
    ctx.run("pathological", CaseCfg::cases(n).choices(64).same_thread(), |d| {
        let b = big && d.chance(1, 3);
        let (name, text) = mutate::pathological(d, b);
        let sc = vcore::util::Scratch::new("c10");
        let f = sc.join("a.veryl");
        vcore::util::write_file(&f, &text);
        let out = vcore::util::run_cmd(
            exe.to_str().unwrap(),
            &["parse-one", f.to_str().unwrap()],
            std::path::Path::new("/verif/.work"),
            &[],
            Duration::from_secs(240),
        );
        if out.timed_out {
            return Outcome::skip("subprocess exceeded 240 s (inconclusive, not a violation)");
        }
        let shape = name.split('x').next().unwrap_or("").to_string();
        match (out.code, out.signal) {
            (Some(0), _) => Outcome::pass(hash_str(&name), true, vec!["accepted".into(), shape], name),
            (Some(3), _) => Outcome::pass(hash_str(&name), true, vec!["rejected".into(), shape], name),
            (Some(4), _) => Outcome::fail("syntax-error-span-outside-input", out.stdout, json!({"shape": name})),
            (Some(101), _) => Outcome::fail(format!("panic-in-parser:{shape}"), out.stderr, json!({"shape": name})),
            (None, Some(9)) => Outcome::skip("subprocess killed (SIGKILL: out of memory?) — inconclusive"),
            (None, Some(sig)) => Outcome::fail(
                format!("parser-crash-signal-{sig}:{shape}"),
                format!("`parse-one` died with signal {sig} (stack overflow = 6/11) on {name} ({} bytes)", text.len()),
                json!({"shape": name}),
            ),
            (c, s) => Outcome::skip(format!("unexpected subprocess status {c:?}/{s:?}")),
        }
    });

    ctx.assume("the span bound is the newline-terminated copy the parser actually lexes (input + '\\n' if missing)");
    ctx.assume("subprocess time-outs and SIGKILL are counted as skipped (inconclusive), never as violations");
    ctx.finish(
        "exploration",
        "corpus token lists under 1-6 generated edits incl. junk bytes, short junk-rich strings, and generated deep-nesting / long-run shapes (depth up to 2000 quick, 100000 thorough; 12 shapes x 6 contexts) parsed in a subprocess; every generated case is non-trivial except junk-free ASCII strings in `bytes`; distinct by text hash",
    );
}
