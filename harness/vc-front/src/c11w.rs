//! C11 worker: runs one case the way the real callers run it, inside a child
//! process (`vc-front c11-worker`), so that a stack overflow or an abort is
//! *observed* by the parent as a signal instead of killing the check.
//!
//! Pipelines mirrored (read from the sources named next to each):
//!
//! * `build`  — crates/veryl/src/pipeline.rs `analyze(fail_fast = true)` +
//!   cmd_build.rs: per file parse → pass1 (stop on the first file whose
//!   accumulated diagnostics contain an error), project files first, then the
//!   std library files (project `$std`) unless `[build] exclude_std`;
//!   post_pass1 (stop on error); pass2 per file with
//!   `Context::set_project_name` (stop on error); post_pass2 (stop on error);
//!   then — only now, i.e. only after an error-free analysis — `Emitter::emit`
//!   per file and the source map bytes.  Runs on an 8 MiB thread (= the main
//!   thread of the CLI).  `veryl check` is the same pipeline without the
//!   emission, so `build` covers it.
//! * `fmt`    — cmd_fmt.rs: parse → pass1 (result ignored) → `Formatter::format`; 8 MiB.
//! * `ls`     — crates/languageserver/src/server.rs: `did_open` = `on_change`
//!   (drop_file → parse → pass1 → post_pass1 → pass2 → post_pass2, *all of them
//!   whatever the earlier ones reported*), then `background_analyze` (pass1 of
//!   every other project file and of the std files) + post_pass1, then
//!   `on_change` again on the same text; `formatting` = `Formatter::format` on
//!   the tree kept in `parser_map`, on the same thread.  16 MiB thread
//!   (backend.rs).
//! * `dump`   — cmd_dump.rs: the `build` analysis with `fail_fast = false`
//!   (every pass runs whatever was reported), no emission; 8 MiB.  Used to
//!   confirm `ls` findings with the real CLI.
//!
//! Protocol (one JSON document per line): the parent writes a `Job`, the
//! worker answers with `S <stage>` lines (flushed before the stage starts, so
//! the parent knows what was running when the process died) and one
//! `R <json>` line.

use serde::{Deserialize, Serialize};
use std::io::{BufRead, Write};
use std::path::{Path, PathBuf};
use std::str::FromStr;
use std::sync::Mutex;
use veryl_analyzer::ir::Ir;
use veryl_analyzer::{Analyzer, AnalyzerError, Context};
use veryl_emitter::Emitter;
use veryl_formatter::Formatter;
use veryl_metadata::Metadata;
use veryl_parser::{Parser, resource_table};

#[derive(Serialize, Deserialize, Clone, Debug)]
pub struct Job {
    /// which pipelines to run on the case, in this order, each on a fresh thread
    pub modes: Vec<String>,
    /// project files (name, text); for `ls` the first one is the open buffer
    pub files: Vec<(String, String)>,
    /// the project's Veryl.toml
    pub toml: String,
    /// override of the thread's stack size (MiB); 0 = what the real caller has
    #[serde(default)]
    pub stack_mb: usize,
}

#[derive(Serialize, Deserialize, Clone, Debug, Default)]
pub struct ModeResult {
    pub mode: String,
    /// "ok" | "noparse" | "panic" | "badtoml"
    pub status: String,
    /// the stage that was running last
    pub stage: String,
    /// fail-fast pipelines: the stage whose errors ended the run
    pub stopped_at: Option<String>,
    pub error_codes: Vec<String>,
    pub warning_codes: Vec<String>,
    pub emitted: usize,
    pub panic_loc: String,
    pub panic_msg: String,
    pub panic_frames: Vec<String>,
}

#[derive(Serialize, Deserialize, Clone, Debug, Default)]
pub struct Reply {
    pub results: Vec<ModeResult>,
}

static PANIC: Mutex<Option<(String, String, Vec<String>)>> = Mutex::new(None);

fn mark(stage: &str) {
    let out = std::io::stdout();
    let mut l = out.lock();
    let _ = writeln!(l, "S {stage}");
    let _ = l.flush();
    STAGE.with(|s| *s.borrow_mut() = stage.to_string());
}

thread_local! {
    static STAGE: std::cell::RefCell<String> = const { std::cell::RefCell::new(String::new()) };
}

fn install_hook() {
    std::panic::set_hook(Box::new(|info| {
        let loc = info.location().map(|l| format!("{}:{}:{}", l.file(), l.line(), l.column())).unwrap_or_default();
        let p = info.payload();
        let msg = p
            .downcast_ref::<String>()
            .cloned()
            .or_else(|| p.downcast_ref::<&str>().map(|s| s.to_string()))
            .unwrap_or_else(|| "panic (non-string payload)".into());
        let mut g = PANIC.lock().unwrap_or_else(|e| e.into_inner());
        if g.is_none() {
            // innermost frames of the repository's own code: for the human reader only
            let bt = std::backtrace::Backtrace::force_capture().to_string();
            let frames: Vec<String> = bt
                .lines()
                .map(|l| l.trim())
                .filter(|l| l.contains("veryl_") && !l.starts_with("at "))
                .map(|l| l.split_once(": ").map(|x| x.1).unwrap_or(l).to_string())
                .take(6)
                .collect();
            *g = Some((loc, msg, frames));
        }
    }));
}

struct Acc {
    errors: std::collections::BTreeSet<String>,
    warnings: std::collections::BTreeSet<String>,
    any_error: bool,
}

impl Acc {
    fn new() -> Acc {
        Acc {
            errors: Default::default(),
            warnings: Default::default(),
            any_error: false,
        }
    }
    fn add(&mut self, v: Vec<AnalyzerError>) {
        use miette::Diagnostic;
        for e in v {
            let code = e.code().map(|c| c.to_string()).unwrap_or_default();
            if e.is_error() {
                self.any_error = true;
                self.errors.insert(code);
            } else {
                self.warnings.insert(code);
            }
        }
    }
}

fn std_files() -> Vec<(PathBuf, String)> {
    // the files `veryl_std::paths` lists, in its order (sorted walk)
    let base = Path::new(&vcore::util::repo_root()).join("crates/std/veryl/src");
    vcore::util::read_tree(&base)
        .into_iter()
        .filter(|(rel, _)| rel.ends_with(".veryl"))
        .map(|(rel, bytes)| (base.join(rel), String::from_utf8_lossy(&bytes).into_owned()))
        .collect()
}

fn project_path(name: &str) -> PathBuf {
    PathBuf::from(format!("/verif/.work/c11prj/src/{name}"))
}

/// `veryl build` / `veryl check` (fail_fast) and `veryl dump` (!fail_fast).
fn run_cli(job: &Job, md: &Metadata, fail_fast: bool, emit: bool, r: &mut ModeResult) {
    let mut acc = Acc::new();
    let prj = md.project.name.clone();
    let analyzer = Analyzer::new(md);
    // (project, path, text)
    let mut inputs: Vec<(String, PathBuf, String)> =
        job.files.iter().map(|(n, t)| (prj.clone(), project_path(n), t.clone())).collect();
    if !md.build.exclude_std {
        for (p, t) in std_files() {
            inputs.push(("$std".to_string(), p, t));
        }
    }
    let mut parsed = Vec::new();
    macro_rules! stop_if_error {
        ($stage:expr) => {
            if fail_fast && acc.any_error {
                r.stopped_at = Some($stage.to_string());
                finish(r, acc);
                return;
            }
        };
    }
    fn finish(r: &mut ModeResult, acc: Acc) {
        r.error_codes = acc.errors.into_iter().collect();
        r.warning_codes = acc.warnings.into_iter().collect();
    }
    for (p, path, text) in &inputs {
        mark("parse");
        let Ok(parser) = Parser::parse(text, path) else {
            r.status = "noparse".into();
            finish(r, acc);
            return;
        };
        mark("pass1");
        acc.add(analyzer.analyze_pass1(p, &parser.veryl));
        stop_if_error!("pass1");
        parsed.push(parser);
    }
    mark("post_pass1");
    acc.add(Analyzer::analyze_post_pass1());
    stop_if_error!("post_pass1");
    let mut context = Context::default();
    let mut ir = Ir::default();
    for (i, parser) in parsed.iter().enumerate() {
        mark("pass2");
        context.set_project_name(&inputs[i].0);
        acc.add(analyzer.analyze_pass2(&parser.veryl, &mut context, Some(&mut ir)));
        stop_if_error!("pass2");
    }
    mark("post_pass2");
    acc.add(Analyzer::analyze_post_pass2(&ir));
    stop_if_error!("post_pass2");
    if emit && !acc.any_error {
        for (i, parser) in parsed.iter().enumerate() {
            mark("emit");
            let src = &inputs[i].1;
            let dst = src.with_extension("sv");
            let map = src.with_extension("sv.map");
            let mut emitter = Emitter::new(md, &inputs[i].0, src, &dst, &map);
            emitter.emit(&parser.veryl, &inputs[i].2);
            let _ = emitter.as_str().len();
            let sm = emitter.source_map();
            sm.set_source_content(&inputs[i].2);
            let _ = sm.to_bytes();
            r.emitted += 1;
        }
    }
    finish(r, acc);
}

/// `veryl fmt`
fn run_fmt(job: &Job, md: &Metadata, r: &mut ModeResult) {
    for (name, text) in &job.files {
        let path = project_path(name);
        mark("parse");
        let Ok(parser) = Parser::parse(text, &path) else {
            r.status = "noparse".into();
            return;
        };
        mark("pass1");
        let analyzer = Analyzer::new(md);
        let _ = analyzer.analyze_pass1(&md.project.name, &parser.veryl);
        mark("format");
        let mut formatter = Formatter::new(md);
        formatter.format(&parser.veryl, text);
        let _ = formatter.as_str().len();
    }
}

/// The language server: did_open of files[0] in a project whose other files
/// are files[1..], then a formatting request.
fn run_ls(job: &Job, md: &Metadata, r: &mut ModeResult) {
    let mut acc = Acc::new();
    let prj = md.project.name.clone();
    let (name, text) = &job.files[0];
    let path = project_path(name);
    let mut kept = None;
    for round in 0..2 {
        // ---- on_change
        if let Some(path_id) = resource_table::get_path_id(path.clone()) {
            mark("drop_file");
            Analyzer::drop_file(path_id, Some(prj.as_str().into()));
        }
        mark("parse");
        let Ok(parser) = Parser::parse(text, &path) else {
            r.status = "noparse".into();
            return;
        };
        let analyzer = Analyzer::new(md);
        let mut context = Context::default();
        let mut ir = Ir::default();
        mark("pass1");
        acc.add(analyzer.analyze_pass1(&prj, &parser.veryl));
        mark("post_pass1");
        acc.add(Analyzer::analyze_post_pass1());
        mark("pass2");
        acc.add(analyzer.analyze_pass2(&parser.veryl, &mut context, Some(&mut ir)));
        mark("post_pass2");
        acc.add(Analyzer::analyze_post_pass2(&ir));
        kept = Some(parser);
        if round == 0 {
            // ---- background_analyze of every other path of the project
            let mut others: Vec<(String, PathBuf, String)> =
                job.files[1..].iter().map(|(n, t)| (prj.clone(), project_path(n), t.clone())).collect();
            if !md.build.exclude_std {
                for (p, t) in std_files() {
                    others.push(("$std".to_string(), p, t));
                }
            }
            // the server pops from the back of the path list
            for (p, path, text) in others.iter().rev() {
                if let Some(id) = resource_table::get_path_id(path.clone()) {
                    Analyzer::drop_file(id, Some(p.as_str().into()));
                }
                mark("parse");
                if let Ok(x) = Parser::parse(text, path) {
                    mark("pass1");
                    let analyzer = Analyzer::new(md);
                    let _ = analyzer.analyze_pass1(p, &x.veryl);
                }
            }
            mark("post_pass1");
            let _ = Analyzer::analyze_post_pass1();
        }
    }
    // ---- formatting request
    if let Some(parser) = kept {
        mark("format");
        let mut formatter = Formatter::new(md);
        formatter.format(&parser.veryl, text);
        let _ = formatter.as_str().len();
    }
    r.error_codes = acc.errors.into_iter().collect();
    r.warning_codes = acc.warnings.into_iter().collect();
}

fn run_mode(job: &Job, mode: &str) -> ModeResult {
    let mut r = ModeResult {
        mode: mode.to_string(),
        status: "ok".into(),
        ..Default::default()
    };
    let Ok(md) = Metadata::from_str(&job.toml) else {
        r.status = "badtoml".into();
        return r;
    };
    *PANIC.lock().unwrap_or_else(|e| e.into_inner()) = None;
    let stack_mb = if job.stack_mb > 0 {
        job.stack_mb
    } else if mode == "ls" {
        16
    } else {
        8
    };
    let mode_s = mode.to_string();
    let job2 = job.clone();
    let h = std::thread::Builder::new()
        .stack_size(stack_mb << 20)
        .name(format!("c11-{mode}"))
        .spawn(move || {
            let mut r = ModeResult {
                mode: mode_s.clone(),
                status: "ok".into(),
                ..Default::default()
            };
            let res = std::panic::catch_unwind(std::panic::AssertUnwindSafe(|| match mode_s.as_str() {
                "build" => run_cli(&job2, &md, true, true, &mut r),
                "check" => run_cli(&job2, &md, true, false, &mut r),
                "dump" => run_cli(&job2, &md, false, false, &mut r),
                "fmt" => run_fmt(&job2, &md, &mut r),
                "ls" => run_ls(&job2, &md, &mut r),
                _ => r.status = "badmode".into(),
            }));
            r.stage = STAGE.with(|s| s.borrow().clone());
            if res.is_err() {
                r.status = "panic".into();
            }
            r
        })
        .expect("spawn case thread");
    match h.join() {
        Ok(x) => r = x,
        Err(_) => {
            // a panic while unwinding out of catch_unwind's payload drop: still a panic
            r.status = "panic".into();
        }
    }
    if r.status == "panic" {
        if let Some((loc, msg, frames)) = PANIC.lock().unwrap_or_else(|e| e.into_inner()).take() {
            r.panic_loc = loc;
            r.panic_msg = msg;
            r.panic_frames = frames;
        }
    }
    r
}

/// `vc-front c11-worker`: serve jobs from stdin until EOF.
pub fn worker_main() -> i32 {
    install_hook();
    // never outlive the check: when the parent is gone (it exited on a verdict while this
    // worker was busy) the process is re-parented; notice that and stop
    fn ppid() -> Option<u32> {
        let t = std::fs::read_to_string("/proc/self/stat").ok()?;
        let k = t.rfind(')')?;
        t[k + 1..].split_whitespace().nth(1)?.parse().ok()
    }
    if let Some(p0) = ppid() {
        std::thread::spawn(move || {
            loop {
                std::thread::sleep(std::time::Duration::from_secs(1));
                if ppid() != Some(p0) {
                    std::process::exit(0);
                }
            }
        });
    }
    let stdin = std::io::stdin();
    let mut line = String::new();
    loop {
        line.clear();
        match stdin.lock().read_line(&mut line) {
            Ok(0) | Err(_) => return 0,
            Ok(_) => {}
        }
        let Ok(job) = serde_json::from_str::<Job>(line.trim_end()) else {
            println!("R {}", serde_json::to_string(&Reply::default()).unwrap());
            continue;
        };
        let mut reply = Reply::default();
        for m in &job.modes {
            {
                let out = std::io::stdout();
                let mut l = out.lock();
                let _ = writeln!(l, "M {m}");
                let _ = l.flush();
            }
            let r = run_mode(&job, m);
            let stop = r.status != "ok";
            reply.results.push(r);
            if stop {
                break;
            }
        }
        let out = std::io::stdout();
        let mut l = out.lock();
        let _ = writeln!(l, "R {}", serde_json::to_string(&reply).unwrap());
        let _ = l.flush();
    }
}
