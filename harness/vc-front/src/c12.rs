//! C12 — every token reports where it really is in the source.
//!
//! Generator: corpus files re-laid with generated separators and injected
//! comments (multi-byte, CRLF, several per line, before the first token,
//! multi-line blocks) and multi-byte string literals.
//! Oracle (independent of the lexer): for every token and comment the
//! collector reports, `src[pos..pos+length] == text`, `line`/`column`
//! recomputed from `pos` (column counted in characters) equal the reported
//! ones, and positions strictly increase in collector order.

use std::path::Path;
use vcore::{CaseCfg, Ctx, Draw, Outcome, hash_str, json};
use vgen::relayout::{self, LayoutOpts, PieceKind};
use veryl_parser::Parser;
use veryl_parser::token_collector::TokenCollector;
use veryl_parser::veryl_token::TokenSource;
use veryl_parser::veryl_walker::VerylWalker;

const MB_STR: &[&str] = &["日本語", "é", "🦀x", "a→b", "ß ß", "Ω"];

pub struct PosReport {
    pub tokens: usize,
    pub comments: usize,
}

/// The oracle.  `Err((signature, message))` on the first disagreement.
pub fn check_positions(src: &str) -> Result<Option<PosReport>, (String, String)> {
    let Ok(parser) = Parser::parse(src, &Path::new("c12.veryl")) else {
        return Ok(None);
    };
    // the parser analyses a newline-terminated copy
    let mut text = src.to_string();
    if !text.ends_with('\n') {
        text.push('\n');
    }
    let mut col = TokenCollector::new(true);
    col.veryl(&parser.veryl);
    // independent position table: byte offset -> (line, char column)
    let mut line_starts = vec![0usize];
    for (i, b) in text.bytes().enumerate() {
        if b == b'\n' {
            line_starts.push(i + 1);
        }
    }
    let locate = |pos: usize| -> (u32, u32) {
        let li = match line_starts.binary_search(&pos) {
            Ok(i) => i,
            Err(i) => i - 1,
        };
        let colc = text[line_starts[li]..pos].chars().count();
        (li as u32 + 1, colc as u32 + 1)
    };
    let mut prev_end: Option<usize> = None;
    let mut rep = PosReport {
        tokens: 0,
        comments: 0,
    };
    for t in &col.tokens {
        if !matches!(t.source, TokenSource::File { .. }) {
            continue;
        }
        let ttext = t.to_string();
        let is_comment = ttext.starts_with("//") || ttext.starts_with("/*");
        let kind = if is_comment { "comment" } else { "token" };
        if is_comment {
            rep.comments += 1;
        } else {
            rep.tokens += 1;
        }
        let pos = t.pos as usize;
        let len = t.length as usize;
        if len != ttext.len() {
            return Err((
                format!("{kind}-length"),
                format!("{kind} {ttext:?}: length {len} but text has {} bytes", ttext.len()),
            ));
        }
        let slice = text.get(pos..pos + len);
        if slice != Some(ttext.as_str()) {
            return Err((
                format!("{kind}-pos"),
                format!(
                    "{kind} {ttext:?} reports pos={pos} length={len}, but the source has {:?} there",
                    slice
                ),
            ));
        }
        let (l, c) = locate(pos);
        if t.line != l {
            if !is_comment && ttext.starts_with('/') && slash_after_comment_newline(&text, pos) {
                return Err((
                    "line-lost:comment-newline-slash".into(),
                    format!(
                        "token {ttext:?} at byte {pos} directly follows a newline after a comment: the lexer reports line {} for it (and one line too few for everything after it), it is on line {l}",
                        t.line
                    ),
                ));
            }
            return Err((
                format!("{kind}-line"),
                format!("{kind} {ttext:?} at byte {pos}: reports line {} but is on line {l}", t.line),
            ));
        }
        if t.column != c {
            return Err((
                format!("{kind}-column"),
                format!(
                    "{kind} {ttext:?} at byte {pos} (line {l}): reports column {} but starts at character column {c}",
                    t.column
                ),
            ));
        }
        if let Some(pe) = prev_end
            && pos < pe
        {
            return Err((
                format!("{kind}-order"),
                format!("{kind} {ttext:?} at byte {pos} is reported after text ending at byte {pe}"),
            ));
        }
        prev_end = Some(pos + len);
        // end position, for texts not ending in a newline
        if !ttext.ends_with('\n') && !ttext.is_empty() {
            let last_char_start = pos + len - ttext.chars().next_back().unwrap().len_utf8();
            let (el, ec) = locate(last_char_start);
            if t.end_line() != el || t.end_column() != ec {
                return Err((
                    format!("{kind}-end"),
                    format!(
                        "{kind} {ttext:?}: reports end {}:{} but its last character is at {el}:{ec}",
                        t.end_line(),
                        t.end_column()
                    ),
                ));
            }
        }
    }
    Ok(Some(rep))
}

/// `text[pos]` is a `/` at the very start of a line, and the nearest
/// non-blank text before it is the end of a comment.
fn slash_after_comment_newline(text: &str, pos: usize) -> bool {
    if pos == 0 || text.as_bytes()[pos - 1] != b'\n' {
        return false;
    }
    let before = text[..pos].trim_end();
    if before.ends_with("*/") {
        return true;
    }
    let line = before.rsplit('\n').next().unwrap_or("");
    line.contains("//")
}

fn gen_case(d: &mut Draw, corpus: &[(String, String)]) -> Option<(String, String, Vec<String>)> {
    let (name, src) = &corpus[d.below_usize(corpus.len())];
    let mut pieces = relayout::pieces(src)?;
    let mut o = LayoutOpts::draw(d);
    // forced features for this property
    if o.inject_per_mille == 0 && d.chance(3, 4) {
        o.inject_per_mille = 60;
    }
    let mut classes = vec![];
    // multi-byte string literals
    if d.chance(1, 2) {
        let mut n = 0;
        for p in pieces.iter_mut() {
            if p.kind == PieceKind::Token && p.text.starts_with('"') && p.text.len() >= 2 && d.chance(1, 2) {
                p.text = format!("\"{}\"", d.pick(MB_STR));
                n += 1;
            }
        }
        if n > 0 {
            classes.push("multibyte_string".to_string());
        }
    }
    let text = relayout::relayout(d, &pieces, &o);
    if o.newline != 0 {
        classes.push("crlf".into());
    }
    if o.leading_comment {
        classes.push("leading_comment".into());
    }
    Some((name.clone(), text, classes))
}

pub fn run(ctx: &Ctx) {
    let corpus: Vec<(String, String)> = vcore::util::corpus_files()
        .into_iter()
        .filter_map(|p| {
            let s = std::fs::read_to_string(&p).ok()?;
            Some((p.to_string_lossy().into_owned(), s))
        })
        .collect();
    assert!(corpus.len() > 50, "corpus not found");

    // sub 1: pristine corpus (every file)
    if !ctx.replay_mode() {
        for (name, src) in &corpus {
            let name = name.clone();
            let src = src.clone();
            let corpus_text = src.clone();
            let out = std::thread::Builder::new()
                .stack_size(16 << 20)
                .spawn(move || match check_positions(&src) {
                    Ok(Some(r)) => Outcome::pass(
                        hash_str(&src),
                        src.contains("//") && !src.is_ascii(),
                        vec!["corpus_pristine".into()],
                        format!("{name}: {} tokens, {} comments", r.tokens, r.comments),
                    ),
                    Ok(None) => Outcome::skip("corpus file does not parse"),
                    Err((sig, msg)) => Outcome::fail(sig, msg, json!({"file": name})),
                })
                .unwrap()
                .join()
                .unwrap();
            ctx.record("text", out, json!({"text": corpus_text}));
        }
    }

    // sub: explicit texts (reproducers of listed findings, recorded cases)
    ctx.run_payloads("text", |p| {
        let text = p.get("text").and_then(|t| t.as_str()).unwrap_or("").to_string();
        std::thread::Builder::new()
            .stack_size(16 << 20)
            .spawn(move || match check_positions(&text) {
                Ok(Some(r)) => Outcome::pass(hash_str(&text), true, vec!["explicit".into()], format!("{} tokens", r.tokens)),
                Ok(None) => Outcome::skip("does not parse"),
                Err((sig, msg)) => Outcome::fail(sig, msg, json!({"text": text})),
            })
            .unwrap()
            .join()
            .unwrap()
    });

    // sub 2: re-laid corpus
    let n = ctx.scale(6000, 300_000);
    ctx.run("relayout", CaseCfg::cases(n).choices(6000).stack_mb(16), |d| {
        let Some((name, text, mut classes)) = gen_case(d, &corpus) else {
            return Outcome::skip("corpus file does not tokenise");
        };
        match check_positions(&text) {
            Ok(None) => Outcome::skip("re-laid text does not parse"),
            Ok(Some(r)) => {
                let mb_comment = !text.is_ascii();
                // two comments in one run = two comments separated only by whitespace
                let multi = has_comment_run(&text);
                if mb_comment {
                    classes.push("multibyte".into());
                }
                if multi {
                    classes.push("comment_run".into());
                }
                Outcome::pass(
                    hash_str(&text),
                    (mb_comment || multi) && r.comments > 0,
                    classes,
                    format!("// from {name}\n{text}"),
                )
            }
            Err((sig, msg)) => Outcome::fail(sig, msg, json!({"from": name, "text": text})),
        }
    });

    ctx.assume("line/column oracle: line = 1 + number of '\\n' before pos; column = 1 + characters since the last '\\n'");
    ctx.assume("generated newlines are \\n or \\r\\n (a lone \\r is not generated)");
    ctx.finish(
        "exploration",
        "corpus files (319) re-laid with generated separators, injected line/block/doc comments (multi-byte, CRLF, several per run, before the first token) and multi-byte string literals; non-trivial = parsed text with >=1 comment that contains multi-byte text or a run of >=2 comments; distinct by text hash",
    );
}

fn has_comment_run(text: &str) -> bool {
    // crude but independent: "*/" or a line comment end followed (after whitespace) by another comment start
    let b = text.as_bytes();
    let mut i = 0;
    let mut last_comment_end: Option<usize> = None;
    while i + 1 < b.len() {
        if b[i] == b'"' {
            // skip string literal
            i += 1;
            while i < b.len() && b[i] != b'"' {
                if b[i] == b'\\' {
                    i += 1;
                }
                i += 1;
            }
            i += 1;
            continue;
        }
        if b[i] == b'/' && (b[i + 1] == b'/' || b[i + 1] == b'*') {
            if let Some(e) = last_comment_end
                && text[e..i].trim().is_empty()
            {
                return true;
            }
            if b[i + 1] == b'/' {
                while i < b.len() && b[i] != b'\n' {
                    i += 1;
                }
            } else {
                i += 2;
                while i + 1 < b.len() && !(b[i] == b'*' && b[i + 1] == b'/') {
                    i += 1;
                }
                i += 2;
            }
            last_comment_end = Some(i.min(b.len()));
            continue;
        }
        i += 1;
    }
    false
}
