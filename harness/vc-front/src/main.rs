mod c06;
mod c08;
mod c09;
mod c10;
mod c11;
mod c12;
mod c13;
mod c14;
mod c15;
mod c16;
mod c17;
mod c23;
mod c26;
mod c28;
mod c29;

fn main() {
    let args: Vec<String> = std::env::args().skip(1).collect();
    let id = args.first().cloned().unwrap_or_default();
    vcore::quiet_panics();
    let ctx = vcore::Ctx::new(&id, &args[1.min(args.len())..]);
    match id.as_str() {
        "C06" => c06::run(&ctx),
        "C08" => c08::run(&ctx),
        "C09" => c09::run(&ctx),
        "C10" => c10::run(&ctx),
        "C11" => c11::run(&ctx),
        "C12" => c12::run(&ctx),
        "C13" => c13::run(&ctx),
        "C14" => c14::run(&ctx),
        "C15" => c15::run(&ctx),
        "C16" => c16::run(&ctx),
        "C17" => c17::run(&ctx),
        "C23" => c23::run(&ctx),
        "C26" => c26::run(&ctx),
        "C28" => c28::run(&ctx),
        "C29" => c29::run(&ctx),
        _ => {
            eprintln!("unknown property id {id:?}");
            std::process::exit(2);
        }
    }
}
