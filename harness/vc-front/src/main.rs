mod front;
mod c08;
mod c09;
mod c12;
mod c10;
mod c11;
mod c11gen;
mod c11w;
mod c24;
mod mutate;

fn main() {
    let args: Vec<String> = std::env::args().skip(1).collect();
    let id = args.first().cloned().unwrap_or_default();
    if id == "dump-tokens" {
        // debugging aid: vc-front dump-tokens FILE
        let src = std::fs::read_to_string(&args[1]).unwrap();
        {
            use veryl_parser::veryl_walker::VerylWalker;
            if let Ok(p) = veryl_parser::Parser::parse(&src, &std::path::Path::new("x.veryl")) {
                let mut c = veryl_parser::token_collector::TokenCollector::new(true);
                c.veryl(&p.veryl);
                if std::env::var("DUMP").is_ok() {
                    for t in &c.tokens {
                        println!("{:?} line={} col={} pos={} len={}", t.to_string(), t.line, t.column, t.pos, t.length);
                    }
                }
            }
        }
        match c12::check_positions(&src) {
            Ok(Some(r)) => println!("ok: {} tokens {} comments", r.tokens, r.comments),
            Ok(None) => println!("does not parse"),
            Err((s, m)) => println!("FAIL {s}: {m}"),
        }
        return;
    }
    if id == "parse-one" {
        std::process::exit(c10::parse_one_main(&args[1]));
    }
    if id == "c11-worker" {
        std::process::exit(c11w::worker_main());
    }
    if id == "fmt" {
        // debugging aid: vc-front fmt FILE [align] -> prints fmt(x) then fmt(fmt(x))
        let src = std::fs::read_to_string(&args[1]).unwrap();
        let mut o = front::FmtOpts::default();
        o.vertical_align = args.get(2).map(|s| s == "align").unwrap_or(false);
        let md = front::metadata(&o);
        let f1 = front::format_text(&src, &md, "a.veryl").expect("parse");
        let f2 = front::format_text(&f1, &md, "a.veryl").expect("parse2");
        println!("--- fmt1\n{f1:?}\n--- fmt2\n{f2:?}\n--- equal={}", f1 == f2);
        return;
    }
    vcore::quiet_panics();
    let ctx = vcore::Ctx::new(&id, &args[1.min(args.len())..]);
    match id.as_str() {
        "C08" => c08::run(&ctx),
        "C09" => c09::run(&ctx),
        "C12" => c12::run(&ctx),
        "C10" => c10::run(&ctx),
        "C11" => c11::run(&ctx),
        "C24" => c24::run(&ctx),
        _ => {
            eprintln!("unknown property id {id:?}");
            std::process::exit(2);
        }
    }
}
