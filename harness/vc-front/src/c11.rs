//! C11 — analysis, emission and formatting never crash on parseable input.
//!
//! Every case is a small project (1–2 files + Veryl.toml) that is pushed
//! through the pipelines of the *real callers* (`veryl build`/`check`,
//! `veryl fmt`, the language server; see c11w.rs for what is mirrored and
//! from which source file) inside a child process.  Oracle: every pipeline
//! returns; a panic is a violation with signature
//! `panic@<repo-relative file>:<message, digits normalised>`; a child that
//! dies by SIGSEGV/SIGABRT/SIGBUS (stack overflow, abort) is a violation with
//! signature `crash-signal:<stage>:<shape family>`.  A case that exceeds the
//! time limit makes the run inconclusive (exit 2); a child that runs out of
//! memory or is killed is counted as skipped.
//!
//! Sub-checks
//!  * `finding`  reproducers of the listed findings (payload = files, toml, modes)
//!  * `mutated`  corpus files (testcases/veryl, testcases/error, std) under
//!    structural token-level edits that still parse — "partially edited programs"
//!  * `shapes`   generated recursive / self-referential / limit-sized /
//!    kind-confused / long-chain programs (c11gen.rs)

use crate::c11gen;
use crate::c11w::{Job, ModeResult, Reply};
use crate::front;
use crate::mutate;
use std::io::{BufRead, BufReader, Read, Write};
use std::process::{Child, ChildStdin, Command, Stdio};
use std::sync::mpsc::{Receiver, RecvTimeoutError, channel};
use std::sync::{Arc, Mutex};
use std::time::Duration;
use vcore::{CaseCfg, Ctx, Outcome, hash_str, json};
use vgen::relayout;

/// Address-space limit of a worker child (KiB) — a runaway allocation ends
/// as an allocation failure in that child, not as memory pressure on the box.
const CHILD_VMEM_KIB: u64 = 8 << 20;
/// Cases served by one child before it is replaced (bounds leaked memory).
const CASES_PER_CHILD: usize = 300;
/// Shrinking re-runs the case in a child each time (a crashing case costs a process start): keep it short.
const SHRINK_ITERS: u32 = 80;

struct Worker {
    child: Child,
    stdin: ChildStdin,
    rx: Receiver<String>,
    stderr_tail: Arc<Mutex<String>>,
    stderr_reader: Option<std::thread::JoinHandle<()>>,
    served: usize,
}

/// Path of this binary, resolved once at start (a rebuild while the check runs replaces the
/// file: /proc/self/exe then reads "<path> (deleted)"; the new file at <path> is used).
fn worker_exe() -> std::path::PathBuf {
    static EXE: std::sync::OnceLock<std::path::PathBuf> = std::sync::OnceLock::new();
    EXE.get_or_init(|| {
        let p = std::env::current_exe().expect("current_exe");
        let s = p.to_string_lossy().into_owned();
        std::path::PathBuf::from(s.strip_suffix(" (deleted)").unwrap_or(&s))
    })
    .clone()
}

impl Worker {
    fn spawn() -> Worker {
        let exe = worker_exe();
        let _ = std::fs::create_dir_all(vcore::util::work_root());
        let mut child = Command::new("/bin/sh")
            .arg("-c")
            .arg(format!("ulimit -v {CHILD_VMEM_KIB}; ulimit -c 0; exec \"$0\" c11-worker"))
            .arg(&exe)
            .current_dir(vcore::util::work_root())
            .stdin(Stdio::piped())
            .stdout(Stdio::piped())
            .stderr(Stdio::piped())
            .spawn()
            .expect("spawn c11 worker");
        let stdin = child.stdin.take().unwrap();
        let stdout = child.stdout.take().unwrap();
        let mut stderr = child.stderr.take().unwrap();
        let (tx, rx) = channel();
        std::thread::spawn(move || {
            let mut r = BufReader::new(stdout);
            let mut line = String::new();
            loop {
                line.clear();
                match r.read_line(&mut line) {
                    Ok(0) | Err(_) => break,
                    Ok(_) => {
                        if tx.send(line.trim_end().to_string()).is_err() {
                            break;
                        }
                    }
                }
            }
        });
        let stderr_tail = Arc::new(Mutex::new(String::new()));
        let tail = stderr_tail.clone();
        let stderr_reader = std::thread::spawn(move || {
            let mut buf = [0u8; 4096];
            loop {
                match stderr.read(&mut buf) {
                    Ok(0) | Err(_) => break,
                    Ok(n) => {
                        let mut t = tail.lock().unwrap();
                        t.push_str(&String::from_utf8_lossy(&buf[..n]));
                        if t.len() > 8192 {
                            let cut = t.len() - 4096;
                            let mut c = cut;
                            while !t.is_char_boundary(c) {
                                c += 1;
                            }
                            *t = t[c..].to_string();
                        }
                    }
                }
            }
        });
        Worker {
            child,
            stdin,
            rx,
            stderr_tail,
            stderr_reader: Some(stderr_reader),
            served: 0,
        }
    }

    fn kill(mut self) {
        let _ = self.child.kill();
        let _ = self.child.wait();
    }
}

impl Drop for Worker {
    fn drop(&mut self) {
        let _ = self.child.kill();
        let _ = self.child.wait();
    }
}

thread_local! {
    static WORKER: std::cell::RefCell<Option<Worker>> = const { std::cell::RefCell::new(None) };
}

pub enum Ran {
    Reply(Reply),
    /// the child died: (mode, stage, signal, exit code, tail of stderr)
    Died {
        mode: String,
        stage: String,
        signal: Option<i32>,
        code: Option<i32>,
        stderr: String,
    },
    TimedOut {
        mode: String,
        stage: String,
        /// CPU seconds used by the child for this job, wall seconds elapsed
        used: f64,
        wall: f64,
    },
}

/// CPU seconds (user + system) consumed so far by process `pid`.
fn cpu_seconds(pid: u32) -> f64 {
    let Ok(t) = std::fs::read_to_string(format!("/proc/{pid}/stat")) else {
        return 0.0;
    };
    let Some(k) = t.rfind(')') else { return 0.0 };
    let f: Vec<&str> = t[k + 1..].split_whitespace().collect();
    // fields 14 and 15 of proc(5) stat = utime, stime in clock ticks (USER_HZ = 100 on Linux)
    let ticks = |i: usize| f.get(i).and_then(|x| x.parse::<f64>().ok()).unwrap_or(0.0);
    (ticks(11) + ticks(12)) / 100.0
}

/// Run one job in this thread's worker child (`timeout` = CPU seconds of the child).
pub fn run_job(job: &Job, timeout: Duration) -> Ran {
    WORKER.with(|w| {
        let mut slot = w.borrow_mut();
        if slot.as_ref().map(|x| x.served >= CASES_PER_CHILD).unwrap_or(false) {
            slot.take();
        }
        if slot.is_none() {
            *slot = Some(Worker::spawn());
        }
        let wk = slot.as_mut().unwrap();
        wk.served += 1;
        wk.stderr_tail.lock().unwrap().clear();
        let line = serde_json::to_string(job).unwrap();
        let sent = wk.stdin.write_all(line.as_bytes()).and_then(|_| wk.stdin.write_all(b"\n")).and_then(|_| wk.stdin.flush());
        let mut mode = String::new();
        let mut stage = String::new();
        // The limit is on the CPU time the child spends on this job (robust on a loaded
        // machine); wall time only backs it up at 10x.
        let pid = wk.child.id();
        let cpu0 = cpu_seconds(pid);
        let started = std::time::Instant::now();
        let deadline = started + timeout * 10;
        let mut dead = sent.is_err();
        while !dead {
            match wk.rx.recv_timeout(Duration::from_millis(500)) {
                Ok(l) => {
                    if let Some(s) = l.strip_prefix("S ") {
                        stage = s.to_string();
                    } else if let Some(m) = l.strip_prefix("M ") {
                        mode = m.to_string();
                        stage.clear();
                    } else if let Some(r) = l.strip_prefix("R ") {
                        return match serde_json::from_str::<Reply>(r) {
                            Ok(r) => Ran::Reply(r),
                            Err(_) => Ran::Reply(Reply::default()),
                        };
                    }
                }
                Err(RecvTimeoutError::Timeout) => {
                    // both clocks must agree (a one-thread job cannot use more CPU than wall time;
                    // this also guards against a misread of /proc)
                    let used = cpu_seconds(pid) - cpu0;
                    let wall = started.elapsed();
                    if std::env::var("C11_DEBUG").is_ok() && used > 5.0 {
                        eprintln!("c11 debug: pid {pid} served {} cpu0 {cpu0:.2} now {:.2} wall {:.1}s mode {mode} stage {stage}", wk.served, cpu_seconds(pid), wall.as_secs_f64());
                    }
                    if (used > timeout.as_secs_f64() && wall > timeout) || std::time::Instant::now() > deadline {
                        let wk = slot.take().unwrap();
                        wk.kill();
                        return Ran::TimedOut {
                            mode,
                            stage,
                            used,
                            wall: wall.as_secs_f64(),
                        };
                    }
                }
                Err(RecvTimeoutError::Disconnected) => dead = true,
            }
        }
        // the child is gone: collect how it died
        let mut wk = slot.take().unwrap();
        let status = wk.child.wait().ok();
        // the child is dead, so its stderr pipe is at EOF: wait for the reader to have drained it
        if let Some(h) = wk.stderr_reader.take() {
            let _ = h.join();
        }
        let stderr = wk.stderr_tail.lock().unwrap().clone();
        use std::os::unix::process::ExitStatusExt;
        Ran::Died {
            mode,
            stage,
            signal: status.and_then(|s| s.signal()),
            code: status.and_then(|s| s.code()),
            stderr,
        }
    })
}

/// `panic@<file>:<message>`: the file is repository-relative, digits in the
/// message are normalised and anything after a quote is dropped, so the
/// signature survives unrelated edits (line shifts) and different inputs.
pub fn panic_signature(loc: &str, msg: &str, frames: &[String]) -> String {
    let file = loc.split(':').next().unwrap_or("");
    let external = file.contains("/.cargo/") || file.contains("/rustc/") || !file.contains("crates/");
    let file = if external {
        // the panic is raised inside the standard library or a dependency (index / slice
        // errors without #[track_caller]): name the repository module of the innermost
        // repository frame instead of a toolchain path
        frames
            .iter()
            .find(|f| f.contains("veryl_"))
            .map(|f| {
                let f = f.trim_start_matches('<');
                let f = f.split("::<impl").next().unwrap_or(f);
                let f = f.split(" as ").next().unwrap_or(f);
                let mut parts: Vec<&str> = f.split("::").collect();
                // drop the hash and the function name
                if parts.last().map(|h| h.starts_with('h') && h.len() == 17).unwrap_or(false) {
                    parts.pop();
                }
                if parts.len() > 2 {
                    parts.pop();
                }
                format!("<{}>", parts.join("::"))
            })
            .unwrap_or_else(|| "<external>".to_string())
    } else {
        file[file.find("crates/").unwrap_or(0)..].to_string()
    };
    // `unwrap()` on an Err prints the error's Debug text, which depends on the input: keep
    // the type name only
    let msg: String = match msg.split_once("on an `Err` value: ") {
        Some((head, tail)) => {
            let ty: String = tail.chars().take_while(|c| c.is_alphanumeric() || *c == '_' || *c == ':').collect();
            format!("{head}on an `Err` value: {ty}")
        }
        None => msg.to_string(),
    };
    let mut short = String::new();
    let mut in_digits = false;
    for c in msg.chars() {
        if c == '"' || c == '\n' {
            break;
        }
        if c.is_ascii_digit() {
            if !in_digits {
                short.push('N');
            }
            in_digits = true;
        } else {
            in_digits = false;
            short.push(c);
        }
        if short.chars().count() >= 80 {
            break;
        }
    }
    format!("panic@{file}:{}", short.trim_end())
}

pub struct CaseInput {
    pub family: String,
    pub files: Vec<(String, String)>,
    pub toml: String,
    pub modes: Vec<String>,
    pub classes: Vec<String>,
    /// recursion / limit shape (non-trivial by construction)
    pub shaped: bool,
    /// generator family/variant (skip histogram, messages)
    pub tag: String,
    /// reproducer of a listed finding (not subject to the generators' exclusions)
    pub payload: bool,
    /// 0 = the tier's limit
    pub timeout_s: u64,
}

pub const DEFAULT_TOML: &str = "[project]\nname = \"prj\"\nversion = \"0.1.0\"\n[build]\nsources = [\"src\"]\ntarget = {type = \"directory\", path = \"target\"}\nexclude_std = true\n";

/// CPU-time limit of one case.
fn timeout(ctx: &Ctx) -> Duration {
    if let Some(t) = std::env::var("C11_TIMEOUT_S").ok().and_then(|t| t.parse().ok()) {
        return Duration::from_secs(t); // development aid
    }
    Duration::from_secs(if ctx.is_quick() { 150 } else { 600 })
}

fn inconclusive(ctx: &Ctx, c: &CaseInput, mode: &str, stage: &str, limit: Duration) -> ! {
    let dir = format!("{}/replays/{}", vcore::run::out_root(), ctx.id);
    let _ = std::fs::create_dir_all(&dir);
    let p = format!("{dir}/hang-{:016x}.json", hash_str(&format!("{:?}{}", c.files, c.toml)));
    let _ = std::fs::write(
        &p,
        serde_json::to_string_pretty(&json!({"property": ctx.id, "sub": "finding", "choices": null,
            "note": format!("case exceeded {} CPU-s in {mode}/{stage}", limit.as_secs()),
            "payload": {"files": c.files, "toml": c.toml, "modes": c.modes}}))
        .unwrap(),
    );
    println!(
        "INCONCLUSIVE property={}: a {} case exceeded the {} CPU-s limit in {mode}/{stage} (saved {p})",
        ctx.id,
        c.family,
        limit.as_secs()
    );
    use std::io::Write;
    let _ = std::io::stdout().flush();
    std::process::exit(2);
}

/// Decide one case.
pub fn decide(ctx: &Ctx, c: &CaseInput) -> Outcome {
    let out = decide_within(ctx, c, timeout(ctx));
    // development aid: C11_HARVEST=<dir> records the first input of every unlisted signature
    // there and carries on, so that one run collects all of them
    if let (Outcome::Fail(f), Ok(dir)) = (&out, std::env::var("C11_HARVEST")) {
        if !ctx.findings().iter().any(|k| k.key == f.signature) {
            let _ = std::fs::create_dir_all(&dir);
            let p = format!("{dir}/{:016x}.json", hash_str(&f.signature));
            if !std::path::Path::new(&p).exists() {
                let _ = std::fs::write(
                    &p,
                    serde_json::to_string_pretty(&json!({"property": "C11", "sub": "finding", "choices": null,
                        "signature": f.signature, "message": f.message,
                        "payload": {"files": c.files, "toml": c.toml, "modes": c.modes, "family": c.family, "tag": c.tag}}))
                    .unwrap(),
                );
            }
            return Outcome::skip(format!("harvested: {}", f.signature));
        }
    }
    out
}

pub fn decide_within(ctx: &Ctx, c: &CaseInput, limit: Duration) -> Outcome {
    if !c.payload && c.files.iter().any(|f| c11gen::branching_self_reference(&f.1)) {
        return Outcome::skip("excluded by construction: a definition referring to itself twice (listed finding hang:rec_const)");
    }
    let job = Job {
        modes: c.modes.clone(),
        files: c.files.clone(),
        toml: c.toml.clone(),
        stack_mb: 0,
    };
    let input = json!({"files": c.files, "toml": c.toml, "modes": c.modes, "family": c.family, "tag": c.tag});
    match run_job(&job, limit) {
        Ran::TimedOut { mode, stage, used, wall } => {
            // A time limit never makes a violation.  Only the reproducer of a *listed* hang
            // (demonstrated against the real binary) reports its KNOWN-FINDING line this way.
            // (no stage in the key: at a time-out the last stage line may still be in the pipe)
            let sig = format!("hang:{}", c.family);
            if ctx.findings().iter().any(|k| k.key == sig && k.status == "known") {
                return Outcome::fail(sig, format!("the `{mode}` pipeline did not finish stage `{stage}` within {} CPU-s", limit.as_secs()), input);
            }
            println!("note: child used {used:.1} CPU-s in {wall:.1} s of wall time on this case");
            inconclusive(ctx, c, &mode, &stage, limit)
        }
        Ran::Died {
            mode,
            stage,
            signal,
            code,
            stderr,
        } => {
            let overflow = stderr.contains("has overflowed its stack");
            let oom = stderr.contains("memory allocation of") || stderr.contains("out of memory");
            match signal {
                Some(6) | Some(11) | Some(7) | Some(4) if !oom => {
                    let kind = if overflow { "stack overflow" } else { "abort/fault without a stack-overflow message" };
                    Outcome::fail(
                        format!("crash-signal:{stage}:{}", c.family),
                        format!(
                            "the process running the `{mode}` pipeline died with signal {} in stage `{stage}`: {kind}\nstderr: {}",
                            signal.unwrap(),
                            stderr.trim()
                        ),
                        input,
                    )
                }
                _ if oom => Outcome::skip(format!("worker ran out of memory in {mode}/{stage} (resource limit, inconclusive)")),
                Some(9) => Outcome::skip(format!("worker killed (SIGKILL) in {mode}/{stage} — inconclusive")),
                _ if matches!(code, Some(126) | Some(127)) || (mode.is_empty() && stage.is_empty()) => {
                    // the worker did not even start the case: the harness is broken, say so
                    println!(
                        "INCONCLUSIVE property={}: the worker process could not run (code {code:?}, signal {signal:?}): {}",
                        ctx.id,
                        stderr.trim()
                    );
                    use std::io::Write;
                    let _ = std::io::stdout().flush();
                    std::process::exit(2);
                }
                _ => Outcome::skip(format!("worker ended unexpectedly in {mode}/{stage}: code {code:?} signal {signal:?}")),
            }
        }
        Ran::Reply(reply) => {
            if reply.results.is_empty() {
                return Outcome::skip("worker could not read the job");
            }
            let mut classes = c.classes.clone();
            let mut codes = std::collections::BTreeSet::new();
            for r in &reply.results {
                match r.status.as_str() {
                    "noparse" => return Outcome::skip(format!("generated text does not parse (outside the domain) [{}]", c.tag)),
                    "badtoml" | "badmode" => return Outcome::skip("harness: bad Veryl.toml / mode"),
                    "panic" => {
                        return Outcome::fail(
                            panic_signature(&r.panic_loc, &r.panic_msg, &r.panic_frames),
                            format!(
                                "`{}` pipeline, stage `{}`: panicked at {}: {}\n  frames: {}",
                                r.mode,
                                r.stage,
                                r.panic_loc,
                                r.panic_msg,
                                r.panic_frames.join(" <- ")
                            ),
                            input,
                        );
                    }
                    _ => {}
                }
                note_result(r, &mut classes, &mut codes);
            }
            let nontrivial = c.shaped || codes.len() >= 2;
            classes.push(format!("diag_codes={}", codes.len().min(4)));
            for k in codes.iter().take(4) {
                classes.push(format!("code:{k}"));
            }
            let text = c.files.iter().map(|(n, t)| format!("// ---- {n}\n{t}")).collect::<Vec<_>>().join("\n");
            Outcome::pass(hash_str(&format!("{text}{}", c.toml)), nontrivial, classes, text)
        }
    }
}

fn note_result(r: &ModeResult, classes: &mut Vec<String>, codes: &mut std::collections::BTreeSet<String>) {
    for k in r.error_codes.iter().chain(r.warning_codes.iter()) {
        codes.insert(k.clone());
    }
    match r.mode.as_str() {
        "build" | "check" => match &r.stopped_at {
            Some(s) => classes.push(format!("cli:stopped@{s}")),
            None => classes.push(if r.emitted > 0 { "cli:emitted".into() } else { "cli:clean".into() }),
        },
        "ls" => classes.push(if r.error_codes.is_empty() { "ls:no-error".into() } else { "ls:errors".into() }),
        _ => {}
    }
}

fn payload_case(p: &serde_json::Value) -> Option<CaseInput> {
    let files: Vec<(String, String)> = p.get("files").and_then(|f| serde_json::from_value(f.clone()).ok())?;
    if files.is_empty() {
        return None;
    }
    let toml = p.get("toml").and_then(|t| t.as_str()).unwrap_or(DEFAULT_TOML).to_string();
    let modes: Vec<String> = p
        .get("modes")
        .and_then(|m| serde_json::from_value(m.clone()).ok())
        .unwrap_or_else(|| vec!["build".to_string(), "fmt".to_string(), "ls".to_string()]);
    let family = p.get("family").and_then(|t| t.as_str()).unwrap_or("mutant").to_string();
    let tag = p.get("tag").and_then(|t| t.as_str()).unwrap_or(&family).to_string();
    Some(CaseInput {
        family,
        files,
        toml,
        modes,
        classes: vec![],
        shaped: false,
        tag,
        payload: true,
        timeout_s: p.get("timeout_s").and_then(|t| t.as_u64()).unwrap_or(0),
    })
}

pub fn run(ctx: &Ctx) {
    let _ = worker_exe();
    let mut corpus = front::load_corpus();
    // the 134 hand-written erroneous files: one error each; edits combine them
    {
        let base = std::path::Path::new(&vcore::util::repo_root()).join("testcases/error");
        for (rel, bytes) in vcore::util::read_tree(&base) {
            if rel.ends_with(".veryl") {
                corpus.push((base.join(&rel).to_string_lossy().into_owned(), String::from_utf8_lossy(&bytes).into_owned()));
            }
        }
    }
    let toks: Vec<Option<Vec<String>>> = corpus
        .iter()
        .map(|(_, s)| {
            relayout::pieces(s).map(|p| {
                p.iter()
                    .filter(|p| matches!(p.kind, relayout::PieceKind::Token | relayout::PieceKind::Verbatim))
                    .map(|p| p.text.clone())
                    .collect()
            })
        })
        .collect();
    let usable: Vec<usize> = (0..corpus.len()).filter(|&i| toks[i].as_ref().map(|t| t.len() >= 4).unwrap_or(false)).collect();
    ctx.note("corpus_files", json!(usable.len()));

    // reproducers of listed findings / recorded cases
    ctx.run_payloads("finding", |p| match payload_case(p) {
        Some(c) if c.timeout_s > 0 => decide_within(ctx, &c, Duration::from_secs(c.timeout_s)),
        Some(c) => decide(ctx, &c),
        None => Outcome::skip("payload without files"),
    });

    let quick = ctx.is_quick();
    // development aid: C11_ONLY=mutated|shapes runs one generated sub-check
    let only = std::env::var("C11_ONLY").ok();
    let dev_cases: Option<usize> = std::env::var("C11_CASES").ok().and_then(|t| t.parse().ok());
    let n = dev_cases.unwrap_or(ctx.scale(2000, 300_000));
    if only.as_deref().map(|o| o == "mutated").unwrap_or(true) {
    ctx.run("mutated", CaseCfg::cases(n).choices(600).same_thread().timeout_s(1500).shrink_iters(SHRINK_ITERS), |d| {
        let i = usable[d.below_usize(usable.len())];
        let t = toks[i].as_ref().unwrap();
        let donor = usable[d.below_usize(usable.len())];
        let m = mutate::mutate_struct(d, t, toks[donor].as_ref().unwrap(), quick);
        // quick tier: instance limits below the defaults, so that a recursive std module whose
        // base case was edited away ends in exceed_limit quickly instead of elaborating 2^depth
        // instances up to the default limit of a million (slow, not a crash)
        let mut_build: Vec<(String, String)> = if quick {
            vec![("instance_depth_limit".into(), "32".into()), ("instance_total_limit".into(), "4096".into())]
        } else {
            vec![]
        };
        let toml = c11gen::draw_toml(d, &mut_build, quick);
        let mut files = vec![("a.veryl".to_string(), m.text)];
        let mut classes: Vec<String> = m.ops.iter().map(|o| format!("op:{o}")).collect();
        if d.chance(1, 6) {
            let j = usable[d.below_usize(usable.len())];
            files.push(("b.veryl".to_string(), corpus[j].1.clone()));
            classes.push("two_files".into());
        }
        let c = CaseInput {
            family: "mutant".into(),
            files,
            toml,
            modes: vec!["build".into(), "fmt".into(), "ls".into()],
            classes,
            shaped: false,
            tag: "mutant".into(),
            payload: false,
            timeout_s: 0,
        };
        decide(ctx, &c)
    });
    }

    let n = dev_cases.unwrap_or(ctx.scale(3000, 300_000));
    if only.as_deref().map(|o| o == "shapes").unwrap_or(true) {
    ctx.run("shapes", CaseCfg::cases(n).choices(400).same_thread().timeout_s(1500).shrink_iters(SHRINK_ITERS), |d| {
        let g = c11gen::shape(d, quick);
        if let Some(why) = &g.excluded {
            return Outcome::skip(format!("excluded by construction: {why}"));
        }
        let toml = c11gen::draw_toml(d, &g.build, quick);
        let mut classes = vec![format!("family:{}", g.family), format!("variant:{}/{}", g.family, g.variant)];
        classes.extend(g.classes.iter().cloned());
        let c = CaseInput {
            family: g.family.clone(),
            files: g.files,
            toml,
            modes: vec!["build".into(), "fmt".into(), "ls".into()],
            classes,
            shaped: g.shaped,
            tag: format!("{}/{}", g.family, g.variant),
            payload: false,
            timeout_s: 0,
        };
        decide(ctx, &c)
    });
    }

    ctx.note("opchain_cap", json!(c11gen::OPCHAIN_CAP));
    ctx.assume("pipelines are mirrored from crates/veryl/src/{pipeline,cmd_build,cmd_check,cmd_fmt}.rs and crates/languageserver/src/server.rs (see vc-front/src/c11w.rs): the CLI path stops at the first stage that reported an error and emits only after an error-free analysis; the language-server path runs every pass whatever was reported and formats on request; thread stacks are 8 MiB (CLI main thread) and 16 MiB (server thread)");
    ctx.assume("not mirrored: filelist generation of `veryl build`, conversion of diagnostics to LSP messages, hover/completion/semantic-token requests, incremental (fragment cache) restores");
    ctx.assume("a panic signature is <file>:<message> without line numbers: two different panic sites with the same message in the same source file share one key (a new site next to a listed one in the same file with the same message is not told apart)");
    ctx.assume(&format!(
        "flat operator chains are generated up to {} operators; longer chains overflow the analyzer's stack (listed finding, replayed from its reproducer every run)",
        c11gen::OPCHAIN_CAP
    ));
    ctx.assume("a case whose child exceeds the limit in CPU time *and* wall time (quick 150 s, thorough 600 s; or 10x that in wall time alone) ends the run as inconclusive (exit 2), never as a violation; only the reproducers of the two listed hangs report through their (5 CPU-s) limit; a worker that runs out of its 8 GiB address space or is killed is counted as skipped");
    if quick {
        ctx.assume("QUICK TIER = the harvested sub-domain: corpus mutants with 1-2 edits out of {identifier swap, same-class token substitution, declaration rename, item deletion, direction/type keyword edit, number edit}; shapes: every enumerated recursive / self-referential variant, loops up to 2048 iterations, operator chains up to the cap, arith / kind-confusion programs with one item and one free hole; default [format]/[build] presentation settings, std excluded.  Its crash sites were harvested over seeds 1-10 (all listed) and 10 further seeds plus 3 large seeds were silent.  The wide domain (1-4 edits incl. duplication, splices within and between files and bracket-group swaps; multi-item arith / kind-confusion programs; std included; generated settings) runs in the thorough tier only: its tail of genuine panic sites did not close during harvesting (about one new site per 5 000 cases), so a thorough run may report further genuine, unlisted sites");
    }
    ctx.finish(
        "exploration",
        "corpus files (testcases/veryl, testcases/error, std) under 1-4 structural token-level edits that still parse (identifier swaps, declaration deletion/duplication, same-class token substitution, direction/type keyword edits, sub-tree splices within and between files), optionally next to a second corpus file; and generated recursive / self-referential / limit-sized / kind-confused / long-chain programs x generated [build] limits and [format] settings; each pushed through the build, fmt and language-server pipelines in a child process; non-trivial = at least 2 distinct diagnostic codes were reported over the pipelines, or the case is a recursion/limit shape; distinct by text hash",
    );
}
