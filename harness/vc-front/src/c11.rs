//! C11 — analysis, emission and formatting never crash on parseable input.
//!
//! Generator: corpus token lists under token-level edits that still parse
//! (ill-typed, unresolved, duplicated, partially edited programs), alone or
//! together with a second, unmodified corpus file.  Oracle: all analyzer
//! passes + emission (when error-free) + formatting return; a panic is a
//! violation whose signature is the panic message (root cause).

use crate::front::{self, FmtOpts};
use crate::mutate;
use vcore::{CaseCfg, Ctx, Outcome, hash_str, json};

thread_local! {
    static LAST_PANIC: std::cell::RefCell<String> = const { std::cell::RefCell::new(String::new()) };
}

fn install_hook() {
    std::panic::set_hook(Box::new(|info| {
        let loc = info.location().map(|l| format!("{}:{}:{}", l.file(), l.line(), l.column())).unwrap_or_default();
        // panics on nested threads (format_text) are re-raised on the case thread: keep the first site
        let _ = LAST_PANIC.try_with(|l| *l.borrow_mut() = loc);
    }));
}

use vgen::relayout;

fn exec(files: &[(String, String)], o: &FmtOpts, with_other: bool) -> Outcome {
    let md = front::metadata(o);
    let text = files[0].1.clone();
        // a panic is a violation; its signature is the source file of the
        // panic site plus the message (root cause, stable under line shifts)
        let r = std::panic::catch_unwind(std::panic::AssertUnwindSafe(|| {
            let b = front::build(files, &md, true);
            if b.is_some() {
                let _ = front::format_text(&text, &md, "a.veryl");
            }
            b
        }));
        let b = match r {
            Ok(Some(b)) => b,
            Ok(None) => return Outcome::skip("mutated text does not parse"),
            Err(p) => {
                let msg = p
                    .downcast_ref::<String>()
                    .cloned()
                    .or_else(|| p.downcast_ref::<&str>().map(|s| s.to_string()))
                    .unwrap_or_default();
                let loc = LAST_PANIC.with(|l| l.borrow().clone());
                let file = loc.split(':').next().unwrap_or("").trim_start_matches("/repo/").to_string();
                let short: String = msg.chars().take(80).collect();
                return Outcome::fail(
                    format!("panic@{file}:{short}"),
                    format!("panicked at {loc}: {msg}"),
                    json!({"files": files, "format": o.describe()}),
                );
            }
        };
        let errs = b.has_error();
        let mut classes = vec![if errs { "diagnosed".to_string() } else { "clean(emitted)".to_string() }];
        if with_other {
            classes.push("two_files".into());
        }
        let codes: std::collections::BTreeSet<&str> = b.diags.iter().filter(|x| x.is_error).map(|x| x.code.as_str()).collect();
        for c in codes.iter().take(3) {
            classes.push(format!("err:{c}"));
        }
        Outcome::pass(hash_str(&text), errs, classes, text)
}

pub fn run(ctx: &Ctx) {
    install_hook();
    let corpus = front::load_corpus();
    let pieces: Vec<_> = corpus.iter().map(|(_, s)| relayout::pieces(s)).collect();
    // reproducers of listed findings / recorded cases
    ctx.run_payloads("finding", |p| {
        let files: Vec<(String, String)> = p
            .get("files")
            .and_then(|f| serde_json::from_value(f.clone()).ok())
            .unwrap_or_default();
        if files.is_empty() {
            return Outcome::skip("payload without files");
        }
        let two = files.len() > 1;
        std::thread::Builder::new()
            .stack_size(8 << 20)
            .spawn(move || exec(&files, &FmtOpts::default(), two))
            .unwrap()
            .join()
            .unwrap()
    });

    let n = ctx.scale(6000, 400_000);
    ctx.run("mutated", CaseCfg::cases(n).choices(3000), |d| {
        let i = d.below_usize(corpus.len());
        let Some(p) = &pieces[i] else {
            return Outcome::skip("corpus file does not tokenise");
        };
        let m = if d.chance(1, 5) { mutate::mutate(d, p, 2, false) } else { mutate::mutate_gentle(d, p, 4) };
        let o = FmtOpts::draw(d);
        let md = front::metadata(&o);
        let mut files = vec![("a.veryl".to_string(), m.text.clone())];
        let with_other = d.chance(1, 4);
        if with_other {
            let j = d.below_usize(corpus.len());
            files.push(("b.veryl".to_string(), corpus[j].1.clone()));
        }
        exec(&files, &o, with_other)
    });
    ctx.assume("the pipeline is driven as crates/veryl's pipeline does: pass1 per file, post_pass1, pass2 per file, post_pass2, emit; formatting as `veryl fmt`");
    ctx.assume("stack exhaustion on operator chains of >= ~20000 operands is outside this generator (cases are <= 400 tokens)");
    ctx.finish(
        "exploration",
        "corpus token lists (windows of <= 400 tokens) under 1-4 generated edits that still parse, optionally next to a second corpus file, x generated [format] settings; non-trivial = the analyzer reported >= 1 error (the diagnostic path ran instead of the clean path); distinct by text hash",
    );
}
