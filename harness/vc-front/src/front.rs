//! Thin wrappers around the veryl front end, used the way the CLI uses it.
//! All of them must be called on a *fresh thread* per independent analysis
//! (parser/analyzer tables are thread-local).
#![allow(dead_code)]

use miette::Diagnostic;
use std::path::{Path, PathBuf};
use vcore::Draw;
use veryl_analyzer::ir::Ir;
use veryl_analyzer::{Analyzer, AnalyzerError, Context};
use veryl_emitter::Emitter;
use veryl_formatter::Formatter;
use veryl_metadata::{Metadata, NewlineStyle};
use veryl_parser::Parser;

#[derive(Clone, Debug)]
pub struct FmtOpts {
    pub indent_width: usize,
    pub max_width: usize,
    pub vertical_align: bool,
    /// 0 auto, 1 unix, 2 windows
    pub newline_style: u8,
}

impl Default for FmtOpts {
    fn default() -> Self {
        FmtOpts {
            indent_width: 4,
            max_width: 120,
            vertical_align: true,
            newline_style: 0,
        }
    }
}

impl FmtOpts {
    pub fn draw(d: &mut Draw) -> FmtOpts {
        FmtOpts {
            indent_width: *d.pick(&[4usize, 2, 1, 3, 8]),
            max_width: *d.pick(&[120usize, 80, 40, 20, 1, 400]),
            vertical_align: d.bool(),
            newline_style: d.weighted(&[4, 1, 1]) as u8,
        }
    }
    pub fn describe(&self) -> String {
        format!(
            "indent_width={} max_width={} vertical_align={} newline_style={}",
            self.indent_width,
            self.max_width,
            self.vertical_align,
            ["auto", "unix", "windows"][self.newline_style as usize]
        )
    }
    pub fn apply(&self, md: &mut Metadata) {
        md.format.indent_width = self.indent_width;
        md.format.max_width = self.max_width;
        md.format.vertical_align = self.vertical_align;
        md.format.newline_style = match self.newline_style {
            0 => NewlineStyle::Auto,
            1 => NewlineStyle::Unix,
            _ => NewlineStyle::Windows,
        };
    }
}

pub fn metadata(fmt: &FmtOpts) -> Metadata {
    let mut md = Metadata::create_default("prj").expect("default metadata");
    fmt.apply(&mut md);
    md
}

/// `veryl fmt` on one text, exactly as `cmd_fmt`: parse, pass1 (for the
/// `#[fmt]` / `#[align]` attributes), format.  `None` if it does not parse.
pub fn format_text(src: &str, md: &Metadata, file: &str) -> Option<String> {
    // Own thread: `veryl fmt` is a process that stops after pass 1, and
    // `Analyzer::clear` does not drop the pass-1 reference candidates, so a
    // later full analysis on the same thread would resolve stale candidates
    // (harness artefact, not a veryl defect).  A panic is re-raised here.
    let r = std::thread::scope(|s| {
        std::thread::Builder::new()
            .stack_size(16 << 20)
            .spawn_scoped(s, || format_text_here(src, md, file))
            .expect("spawn")
            .join()
    });
    match r {
        Ok(x) => x,
        Err(p) => std::panic::resume_unwind(p),
    }
}

fn format_text_here(src: &str, md: &Metadata, file: &str) -> Option<String> {
    let parser = Parser::parse(src, &Path::new(file)).ok()?;
    let analyzer = Analyzer::new(md);
    let _ = analyzer.analyze_pass1(&md.project.name, &parser.veryl);
    let mut formatter = Formatter::new(md);
    formatter.format(&parser.veryl, src);
    let out = formatter.as_str().to_string();
    analyzer.clear();
    Some(out)
}

#[derive(Clone, Debug, PartialEq, Eq, PartialOrd, Ord)]
pub struct DiagRec {
    pub is_error: bool,
    pub code: String,
    pub message: String,
    pub spans: Vec<(usize, usize)>,
}

pub fn diag_rec(e: &AnalyzerError) -> DiagRec {
    DiagRec {
        is_error: e.is_error(),
        code: e.code().map(|c| c.to_string()).unwrap_or_default(),
        message: e.to_string(),
        spans: e
            .labels()
            .map(|l| l.map(|x| (x.offset(), x.len())).collect())
            .unwrap_or_default(),
    }
}

pub struct Built {
    pub diags: Vec<DiagRec>,
    /// emitted SystemVerilog and source map bytes, one per input file; only
    /// when the analysis reported no error
    pub emitted: Vec<(String, Vec<u8>)>,
}

impl Built {
    pub fn has_error(&self) -> bool {
        self.diags.iter().any(|d| d.is_error)
    }
}

/// Full single-project pipeline over `files` (name, text) in the given order:
/// parse → pass1 → post_pass1 → pass2 → post_pass2 → emit.  `None` if any file
/// does not parse.
pub fn build(files: &[(String, String)], md: &Metadata, emit: bool) -> Option<Built> {
    let mut parsed = Vec::new();
    for (name, text) in files {
        let p = Parser::parse(text, &Path::new(name)).ok()?;
        parsed.push(p);
    }
    let mut diags = Vec::new();
    let prj = md.project.name.clone();
    let analyzer = Analyzer::new(md);
    for p in &parsed {
        for e in analyzer.analyze_pass1(&prj, &p.veryl) {
            diags.push(diag_rec(&e));
        }
    }
    for e in Analyzer::analyze_post_pass1() {
        diags.push(diag_rec(&e));
    }
    let mut context = Context::default();
    let mut ir = Ir::default();
    for p in &parsed {
        for e in analyzer.analyze_pass2(&p.veryl, &mut context, Some(&mut ir)) {
            diags.push(diag_rec(&e));
        }
    }
    for e in Analyzer::analyze_post_pass2(&ir) {
        diags.push(diag_rec(&e));
    }
    let mut emitted = Vec::new();
    if emit && !diags.iter().any(|d| d.is_error) {
        for (i, (name, text)) in files.iter().enumerate() {
            let src = PathBuf::from(name);
            let dst = src.with_extension("sv");
            let map = src.with_extension("sv.map");
            let mut emitter = Emitter::new(md, &prj, &src, &dst, &map);
            emitter.emit(&parsed[i].veryl, text);
            let sv = emitter.as_str().to_string();
            let mapb = emitter.source_map().to_bytes().unwrap_or_default();
            emitted.push((sv, mapb));
        }
    }
    analyzer.clear();
    Some(Built { diags, emitted })
}

/// Lexer for the emitted SystemVerilog: token texts with comments and
/// whitespace dropped (strings kept as one token).
pub fn sv_tokens(sv: &str) -> Vec<String> {
    let b = sv.as_bytes();
    let mut out = Vec::new();
    let mut i = 0;
    while i < b.len() {
        let c = b[i];
        if c.is_ascii_whitespace() {
            i += 1;
        } else if c == b'/' && i + 1 < b.len() && b[i + 1] == b'/' {
            while i < b.len() && b[i] != b'\n' {
                i += 1;
            }
        } else if c == b'/' && i + 1 < b.len() && b[i + 1] == b'*' {
            i += 2;
            while i + 1 < b.len() && !(b[i] == b'*' && b[i + 1] == b'/') {
                i += 1;
            }
            i = (i + 2).min(b.len());
        } else if c == b'"' {
            let s = i;
            i += 1;
            while i < b.len() && b[i] != b'"' {
                if b[i] == b'\\' {
                    i += 1;
                }
                i += 1;
            }
            i = (i + 1).min(b.len());
            out.push(String::from_utf8_lossy(&b[s..i]).into_owned());
        } else if c.is_ascii_alphanumeric() || c == b'_' || c == b'$' || c == b'\'' || c == b'`' {
            let s = i;
            i += 1;
            while i < b.len()
                && (b[i].is_ascii_alphanumeric() || b[i] == b'_' || b[i] == b'$' || b[i] == b'\'')
            {
                i += 1;
            }
            out.push(String::from_utf8_lossy(&b[s..i]).into_owned());
        } else if c >= 0x80 {
            let s = i;
            i += 1;
            while i < b.len() && b[i] >= 0x80 {
                i += 1;
            }
            out.push(String::from_utf8_lossy(&b[s..i]).into_owned());
        } else {
            out.push((c as char).to_string());
            i += 1;
        }
    }
    out
}

/// Comments of an SV text in order (line comments without the newline).
pub fn sv_comments(sv: &str) -> Vec<String> {
    let b = sv.as_bytes();
    let mut out = Vec::new();
    let mut i = 0;
    while i < b.len() {
        let c = b[i];
        if c == b'"' {
            i += 1;
            while i < b.len() && b[i] != b'"' {
                if b[i] == b'\\' {
                    i += 1;
                }
                i += 1;
            }
            i += 1;
        } else if c == b'/' && i + 1 < b.len() && b[i + 1] == b'/' {
            let s = i;
            while i < b.len() && b[i] != b'\n' {
                i += 1;
            }
            out.push(String::from_utf8_lossy(&b[s..i]).trim_end().to_string());
        } else if c == b'/' && i + 1 < b.len() && b[i + 1] == b'*' {
            let s = i;
            i += 2;
            while i + 1 < b.len() && !(b[i] == b'*' && b[i + 1] == b'/') {
                i += 1;
            }
            i = (i + 2).min(b.len());
            out.push(String::from_utf8_lossy(&b[s..i]).into_owned());
        } else {
            i += 1;
        }
    }
    out
}

pub fn load_corpus() -> Vec<(String, String)> {
    let v: Vec<(String, String)> = vcore::util::corpus_files()
        .into_iter()
        .filter_map(|p| {
            let s = std::fs::read_to_string(&p).ok()?;
            Some((p.to_string_lossy().into_owned(), s))
        })
        .collect();
    assert!(v.len() > 50, "corpus not found under /repo");
    v
}
