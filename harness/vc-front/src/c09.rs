//! C09 — formatting only changes layout.
//!
//! For generated (re-laid) parseable texts and generated [format] settings:
//!  1. fmt(x) parses;
//!  2. the token sequence of fmt(x) equals that of x, except that a `,`
//!     directly before a closing `}` `)` `]` `>` may appear or disappear;
//!  3. the comments are the same, in the same order, after trimming trailing
//!     whitespace (per line);
//!  4. if x analyses without errors, emit(x) and emit(fmt(x)) have the same
//!     SystemVerilog token stream (comments/whitespace dropped).

use crate::front::{self, FmtOpts};
use vcore::{CaseCfg, Ctx, Outcome, hash_str, json};
use vgen::relayout::{self, LayoutOpts, Piece, PieceKind};

fn tokens_norm(p: &[Piece]) -> Vec<String> {
    let toks: Vec<&str> = p
        .iter()
        .filter(|p| matches!(p.kind, PieceKind::Token | PieceKind::Verbatim))
        .map(|p| p.text.as_str())
        .collect();
    let mut out = Vec::with_capacity(toks.len());
    for (i, t) in toks.iter().enumerate() {
        if *t == ","
            && let Some(n) = toks.get(i + 1)
            && matches!(*n, "}" | ")" | "]" | ">" | ">>" | ">>>")
        {
            continue; // optional trailing separator
        }
        out.push(t.to_string());
    }
    out
}

fn trim_lines(s: &str) -> String {
    s.lines().map(|l| l.trim_end()).collect::<Vec<_>>().join("\n")
}

fn comments_norm(p: &[Piece]) -> Vec<String> {
    p.iter()
        .filter(|p| matches!(p.kind, PieceKind::LineComment | PieceKind::BlockComment))
        .map(|p| trim_lines(p.text.trim_end()))
        .collect()
}

fn first_mismatch<T: PartialEq + std::fmt::Debug>(a: &[T], b: &[T]) -> String {
    for i in 0..a.len().max(b.len()) {
        if a.get(i) != b.get(i) {
            let lo = i.saturating_sub(3);
            return format!(
                "index {i}: original {:?} vs formatted {:?}",
                &a[lo.min(a.len())..(i + 3).min(a.len())],
                &b[lo.min(b.len())..(i + 3).min(b.len())]
            );
        }
    }
    "equal".into()
}

pub fn layout_only(x: &str, o: &FmtOpts, origin: &str, with_emit: bool) -> Outcome {
    let md = front::metadata(o);
    let Some(px) = relayout::pieces(x) else {
        return Outcome::skip("input does not parse");
    };
    let Some(f) = front::format_text(x, &md, "a.veryl") else {
        return Outcome::skip("input does not parse");
    };
    let input = json!({"origin": origin, "format": o.describe(), "x": x, "fmt": f});
    let Some(pf) = relayout::pieces(&f) else {
        return Outcome::fail(
            "formatted-output-does-not-parse",
            format!("[{}] from {origin}: fmt(x) is rejected by the parser", o.describe()),
            input,
        );
    };
    let (tx, tf) = (tokens_norm(&px), tokens_norm(&pf));
    if tx != tf {
        return Outcome::fail(
            "token-sequence-changed",
            format!("[{}] from {origin}: tokens differ at {}", o.describe(), first_mismatch(&tx, &tf)),
            input,
        );
    }
    let (cx, cf) = (comments_norm(&px), comments_norm(&pf));
    if cx != cf {
        let sig = if cx.len() != cf.len() { "comment-lost-or-duplicated" } else { "comment-text-changed" };
        return Outcome::fail(
            sig,
            format!("[{}] from {origin}: comments differ at {}", o.describe(), first_mismatch(&cx, &cf)),
            input,
        );
    }
    let mut classes = vec![];
    if with_emit {
        // a crash of the analyzer on x itself is C11's business: here it only
        // means "x does not analyse cleanly", so clause 4 does not apply
        let bx = std::panic::catch_unwind(|| front::build(&[("a.veryl".into(), x.to_string())], &md, true));
        let bx = match bx {
            Ok(b) => b,
            Err(_) => {
                classes.push("analyzer_panicked_on_x(left to C11)".to_string());
                if std::env::var("VERIF_DUMP_X").is_ok() {
                    eprintln!("--- x ({origin}) ---\n{x}\n---");
                }
                None
            }
        };
        if let Some(bx) = bx
            && !bx.has_error()
        {
            classes.push("emit_compared".to_string());
            let bf = front::build(&[("a.veryl".into(), f.clone())], &md, true);
            match bf {
                Some(bf) if !bf.has_error() => {
                    let sx = front::sv_tokens(&bx.emitted[0].0);
                    let sf = front::sv_tokens(&bf.emitted[0].0);
                    if sx != sf {
                        return Outcome::fail(
                            "emitted-sv-differs",
                            format!(
                                "[{}] from {origin}: emit(x) and emit(fmt(x)) differ at {}",
                                o.describe(),
                                first_mismatch(&sx, &sf)
                            ),
                            input,
                        );
                    }
                }
                _ => {
                    return Outcome::fail(
                        "formatted-output-does-not-analyse",
                        format!("[{}] from {origin}: x analyses cleanly but fmt(x) does not", o.describe()),
                        input,
                    );
                }
            }
        }
    }
    if !cx.is_empty() {
        classes.push("has_comment".into());
    }
    Outcome::pass(
        hash_str(&format!("{}|{}", o.describe(), x)),
        !cx.is_empty() && f != x,
        classes,
        format!("// {} [{}]\n{}", origin, o.describe(), x),
    )
}

pub fn run(ctx: &Ctx) {
    let corpus = front::load_corpus();
    let n = ctx.scale(3000, 200_000);
    ctx.run("relayout", CaseCfg::cases(n).choices(8000).stack_mb(16), |d| {
        let (name, src) = &corpus[d.below_usize(corpus.len())];
        let Some(pieces) = relayout::pieces(src) else {
            return Outcome::skip("corpus file does not tokenise");
        };
        let o = FmtOpts::draw(d);
        let mut lo = LayoutOpts::draw(d);
        if lo.inject_per_mille == 0 && d.chance(1, 2) {
            lo.inject_per_mille = 40;
        }
        let x = relayout::relayout(d, &pieces, &lo);
        layout_only(&x, &o, name, true)
    });
    ctx.assume("token sequences are taken from the parser's token positions plus the text between them (the default tree walker skips one `;`), so the witness is complete");
    ctx.assume("clause 4 (same emitted SV) is checked only when the single file analyses without errors on its own");
    ctx.finish(
        "exploration",
        "corpus files re-laid with generated separators and injected comments x generated [format] settings; non-trivial = >=1 comment and fmt(x) != x; distinct by (settings, text) hash",
    );
}
