#!/usr/bin/env python3
"""C30 finding `race/std-expansion-not-atomic`.

veryl_std::expand (crates/std/src/lib.rs) tests `std_dir.exists()` BEFORE it
takes the lock, creates the directory, and then writes the library files in
place.  Process A is held (through the VERYL_VERIF_SOCK hook) after it has
half-written its second std file; process B (another project, same user cache)
then starts, sees the directory, skips the expansion and analyses the partial
library: parse error / missing std outputs.  Alone, B builds fine.

usage: std-expansion-race.py [path of a veryl binary built with --cfg veryl_verif]
exit 1 = defect present, 0 = not present
"""
import os, shutil, socket, subprocess, sys, tempfile

veryl = sys.argv[1] if len(sys.argv) > 1 else os.environ.get("VERYL", "/verif/.target/h/release/veryl")
if not os.path.exists(veryl):
    veryl = "/verif/.target/a-fault/release/veryl"
os.makedirs("/verif/.work", exist_ok=True)
W = tempfile.mkdtemp(prefix="known-c30-", dir="/verif/.work")

def project(name):
    root = os.path.join(W, name)
    os.makedirs(os.path.join(root, "src"))
    open(os.path.join(root, "Veryl.toml"), "w").write(
        f'[project]\nname = "{name}"\nversion = "0.1.0"\n\n[build]\nsources = ["src"]\n'
        'target = {type = "directory", path = "target"}\nexclude_std = false\n')
    open(os.path.join(root, "src", "a.veryl"), "w").write(
        "module ModA (\n    i_a: input  logic<4>,\n    o_a: output logic<4>,\n) {\n    assign o_a = i_a + 1;\n}\n")
    return root

env = dict(os.environ, XDG_CACHE_HOME=os.path.join(W, "xdg"), NO_GRAPHICS="1", NO_COLOR="1")
os.makedirs(env["XDG_CACHE_HOME"])
pa, pb = project("pa"), project("pb")
sock_path = os.path.join(W, "s")
srv = socket.socket(socket.AF_UNIX, socket.SOCK_STREAM)
srv.bind(sock_path)
srv.listen(4)
envA = dict(env, VERYL_VERIF_SOCK=sock_path, VERYL_VERIF_FILTER="std:")
A = subprocess.Popen([veryl, "build"], cwd=pa, env=envA, stdout=subprocess.DEVNULL, stderr=subprocess.DEVNULL)
conn, _ = srv.accept()
f = conn.makefile("rb")
half = 0
while True:
    line = f.readline().decode().rstrip("\n").split("\t")
    if line[2] == "std:file-half-written":
        half += 1
        if half == 2:
            print("A is held at", line[2], os.path.basename(line[3]))
            break
    conn.sendall(b"g")
# B runs alone-in-time, but beside the held A
B = subprocess.run([veryl, "build"], cwd=pb, env=env, capture_output=True, text=True)
print("B (concurrent) exit", B.returncode)
print("\n".join(l for l in B.stderr.splitlines() if l.startswith("Error"))[:300])
n_conc = sum(len([x for x in fs if x.endswith(".sv")]) for _, _, fs in os.walk(pb))
# let A finish
conn.sendall(b"g")
while True:
    l = f.readline()
    if not l:
        break
    conn.sendall(b"g")
A.wait()
# B alone, from scratch
for d in (".build", "target", "dependencies"):
    shutil.rmtree(os.path.join(pb, d), ignore_errors=True)
S = subprocess.run([veryl, "build"], cwd=pb, env=env, capture_output=True, text=True)
n_solo = sum(len([x for x in fs if x.endswith(".sv")]) for _, _, fs in os.walk(pb))
print("B (alone) exit", S.returncode, "; emitted .sv files: concurrent", n_conc, "/ alone", n_solo)
shutil.rmtree(W, ignore_errors=True)
if B.returncode != S.returncode or n_conc != n_solo:
    print("DIFFERENT (defect present)")
    sys.exit(1)
print("SAME (defect not present)")
