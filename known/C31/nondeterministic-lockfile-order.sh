#!/bin/bash
# C31 findings `nondeterministic-dependencies-order` and
# `nondeterministic-lockfile-text`: identical input, different Veryl.lock.
#  (1) the `dependencies` array of a lock follows the iteration order of the
#      dependency's `metadata.dependencies` HashMap (Lockfile::gen_locks);
#  (2) Lockfile::save sorts `projects` with an order that ignores properties,
#      on top of the iteration order of the `lock_table` HashMap, so two locks
#      of one release with different properties swap places.
. "$(dirname "$0")/lib.sh"
project c c 1.0.0; publish c 1.0.0
project d d 1.0.0; publish d 1.0.0
project e e 1.0.0; publish e 1.0.0
project a a 0.1.0 "c = {git = \"file://$U/c\", version = \"1\"}" "d = {git = \"file://$U/d\", version = \"1\"}" "e = {git = \"file://$U/e\", version = \"1\"}"; publish a 0.1.0
root "a = {git = \"file://$U/a\", version = \"0.1\"}"
echo "== (1) order of a's dependencies in Veryl.lock over 8 fresh resolutions"
for i in 1 2 3 4 5 6 7 8; do rm -f root/Veryl.lock; resolve
python3 - <<'PY'
import tomllib
d = tomllib.load(open("root/Veryl.lock", "rb"))
print([x["name"] for p in d["projects"] if p["name"] == "a" for x in p["dependencies"]])
PY
done | sort | uniq -c
echo "== (2) order of two locks of one release (different properties) over 8 fresh resolutions"
rm -rf root cache
mkdir -p w; printf '[project]\nname = "w"\nversion = "1.0.0"\n\n[properties]\nW = 8\n' > w/Veryl.toml
git -C w init -q -b main; git -C w add Veryl.toml; git -C w commit -qm w; publish w 1.0.0
root "w8 = {git = \"file://$U/w\", project = \"w\", version = \"1\"}" "w16 = {git = \"file://$U/w\", project = \"w\", version = \"1\", properties = {W = 16}}"
for i in 1 2 3 4 5 6 7 8; do rm -f root/Veryl.lock; resolve
python3 - <<'PY'
import tomllib
d = tomllib.load(open("root/Veryl.lock", "rb"))
print([p["name"] for p in d["projects"]])
PY
done | sort | uniq -c
echo "(more than one distinct line in a block = the same input gave different lock files)"
rm -rf "$U"
