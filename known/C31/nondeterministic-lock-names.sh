#!/bin/bash
# C31 finding `nondeterministic-lock-names`: two projects (a, b) both declare a
# dependency called `c` on the same project with incompatible requirements.
# Lockfile::gen_locks walks `metadata.dependencies` (a std HashMap) in
# iteration order, so which of the two releases keeps the name `c` and which
# becomes `c_0` changes from run to run on identical input.
. "$(dirname "$0")/lib.sh"
project c c 1.0.0; publish c 1.0.0
set_version c 2.0.0; publish c 2.0.0
project a a 0.1.0 "c = {git = \"file://$U/c\", version = \"1\"}"; publish a 0.1.0
project b b 0.1.0 "c = {git = \"file://$U/c\", version = \"2\"}"; publish b 0.1.0
root "a = {git = \"file://$U/a\", version = \"0.1\"}" "b = {git = \"file://$U/b\", version = \"0.1\"}"
for i in 1 2 3 4 5 6 7 8; do rm -f root/Veryl.lock; resolve; locks; done | sort | uniq -c
echo "(more than one distinct line above = the same input resolved to different project names)"
rm -rf "$U"
