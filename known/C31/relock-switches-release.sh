#!/bin/bash
# C31 finding `modified-although-declarations-unchanged` (and its direct-
# dependency form `error-although-declarations-unchanged:InvalidDependency`).
# resolve_version_from_lockfile returns the FIRST lock of the repository whose
# version satisfies the requirement, highest version first - not the release
# that was locked for this dependency.  As soon as a second, higher release of
# the same project is locked for another declaration, the next resolution
# (nothing edited, nothing published) moves the first dependency onto it.
. "$(dirname "$0")/lib.sh"
project c c 0.2.5; publish c 0.2.5
project s s 0.1.0 "c = {git = \"file://$U/c\", version = \">=0.1\"}"; publish s 0.1.0
echo "== transitive form"
root "s = {git = \"file://$U/s\", version = \"0.1\"}"
resolve; echo -n "1st build:                      "; locks
set_version c 1.0.0; publish c 1.0.0
root "s = {git = \"file://$U/s\", version = \"0.1\"}" "c1 = {git = \"file://$U/c\", project = \"c\", version = \"^1\"}"
resolve; echo -n "c 1.0.0 published, c1 added:    "; locks
cp root/Veryl.lock lock.before
resolve; echo -n "built again, nothing changed:   "; locks
cmp -s lock.before root/Veryl.lock && echo "Veryl.lock unchanged (expected)" || echo "Veryl.lock REWRITTEN although nothing changed: s's dependency c left its locked 0.2.5"
echo "== direct form"
rm -rf root cache
root "y = {git = \"file://$U/c\", project = \"c\", version = \">=0.1, <1.0.0\"}"
resolve
root "y = {git = \"file://$U/c\", project = \"c\", version = \">=0.1\"}" "z = {git = \"file://$U/c\", project = \"c\", version = \"^1\"}"
resolve; echo -n "y locked at 0.2.5, z added:     "; locks
echo "built again, nothing changed:"
resolve 2>&1 | tail -n 5 && locks
rm -rf "$U"
