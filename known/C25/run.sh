#!/bin/bash
# C25 findings: Metadata::paths (crates/metadata/src/metadata.rs) assigns the
# same output path to two different source files.
#
#   bundle-same-file-name/          target = bundle: dst = target/<file name>.sv, the
#                                   directory below the sources dir is dropped, so
#                                   src/a/foo.veryl and src/b/foo.veryl share
#                                   target/foo.sv -> the bundle holds ModB twice, ModA is lost
#   two-sources-same-relative-path/ target = directory, sources = ["src", "rtl"]: dst =
#                                   <target>/<path below the sources dir>.sv, the sources
#                                   dir itself is dropped, so src/foo.veryl and rtl/foo.veryl
#                                   share target/foo.sv -> ModA's output is overwritten and
#                                   the filelist names target/foo.sv twice
#
# usage: VERYL=/path/to/veryl ./run.sh      (exit 1 = defect present)
set -u
HERE=$(cd "$(dirname "$0")" && pwd)
VERYL=${VERYL:-veryl}
W=$(mktemp -d /verif/.work/c25-known.XXXXXX)
export XDG_CACHE_HOME=$W/xdg NO_GRAPHICS=1
mkdir -p "$XDG_CACHE_HOME"
rc=0
cp -r "$HERE/bundle-same-file-name" "$W/b"
(cd "$W/b" && $VERYL build >/dev/null 2>&1)
na=$(grep -c '^module prj_ModA' "$W/b/bundled.sv"); nb=$(grep -c '^module prj_ModB' "$W/b/bundled.sv")
echo "bundle: prj_ModA defined $na time(s), prj_ModB defined $nb time(s)"
[ "$na" = 1 ] && [ "$nb" = 1 ] || { echo "  DEFECT PRESENT (bundle target)"; rc=1; }
cp -r "$HERE/two-sources-same-relative-path" "$W/m"
(cd "$W/m" && $VERYL build >/dev/null 2>&1)
echo "two sources dirs: emitted $(cd "$W/m" && find . -name '*.sv' | sort | tr '\n' ' ')"
echo "filelist:"; sed 's/^/  /' "$W/m/prj.f"
nl=$(sort "$W/m/prj.f" | uniq -d | wc -l)
[ "$nl" = 0 ] && grep -q ModA -r "$W/m/target" || { echo "  DEFECT PRESENT (directory target, two sources dirs)"; rc=1; }
rm -rf "$W"
exit $rc
