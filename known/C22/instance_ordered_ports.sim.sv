// key: behaviour:instance-ordered-ports
module sub (input logic [7:0] x, output logic [7:0] q);
    assign q = x + 8'd1;
endmodule
module top (input logic [7:0] a, output logic [7:0] y);
    sub u_sub (.x(a), .q(y));
endmodule
