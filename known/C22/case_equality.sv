// key: invalid-veryl:case-equality
module top (input logic [7:0] a, input logic [7:0] b, output logic y);
    assign y = a === b;
endmodule
