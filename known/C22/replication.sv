// key: invalid-veryl:replication
module top (input logic [3:0] a, output logic [7:0] y);
    assign y = {2{a}};
endmodule
