// key: ports:port-inherits-header
module top (input logic [7:0] a, b, output logic [7:0] y);
    assign y = a + b;
endmodule
