// key: behaviour:always-body-first-statement-only
module top (input logic [7:0] a, input logic [7:0] b, input logic c, output logic [7:0] y, output logic [7:0] z);
    always_comb begin
        y = 8'h00;
        if (c) begin
            y = a + b;
        end
    end
    always_comb z = a - b;
endmodule
