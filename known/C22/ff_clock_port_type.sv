// key: analysis-error:ff-clock-port-type
module top (input logic clk, input logic rst_n, input logic [7:0] a, output logic [7:0] y);
    logic [7:0] r;
    always_ff @(posedge clk or negedge rst_n) begin
        if (!rst_n) begin
            r <= 8'h00;
        end else begin
            r <= r + a;
        end
    end
    assign y = r;
endmodule
