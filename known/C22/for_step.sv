// key: behaviour:for-step
module top (input logic [7:0] a, input logic c, output logic [7:0] y);
    always_comb begin
        if (c) begin
            y = 8'h00;
            for (int i = 0; i < 8; i = i + 2) begin
                y[i] = a[i];
            end
        end else begin
            y = a;
        end
    end
endmodule
