// key: invalid-veryl:case-arm-block
module top (input logic [7:0] a, input logic [7:0] b, input logic [1:0] sel, output logic [7:0] y, output logic [7:0] z);
    always_comb begin
        case (sel)
            2'd0: begin
                y = a;
                z = b;
            end
            default: begin
                y = b;
                z = a;
            end
        endcase
    end
endmodule
