// key: behaviour:net-declaration-assignment
module top (input logic [7:0] a, input logic [7:0] b, output logic [7:0] y);
    wire [7:0] w; assign w = a & b;
    assign y = w + 8'd1;
endmodule
