// key: ports:packed-dimension-not-n-to-0
module top (input logic [8:1] a, output logic [8:1] y);
    assign y = a + 8'd1;
endmodule
