// key: analysis-error:function-local-variable
module top (input logic [7:0] a, output logic [7:0] y);
    function automatic logic [7:0] twice(input logic [7:0] x);
        logic [7:0] t;
        t = x + x;
        return t;
    endfunction
    assign y = twice(a);
endmodule
