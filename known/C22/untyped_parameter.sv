// key: behaviour:untyped-parameter
module top #(parameter P = 3) (input logic signed [7:0] a, output logic [15:0] y);
    assign y = a + P;
endmodule
