// key: invalid-veryl:size-cast
module top (input logic [7:0] a, input logic [7:0] b, output logic [15:0] y);
    assign y = 16'(a) + 16'(a * b);
endmodule
