// key: analysis-error:function-scalar-return
module top (input logic [7:0] a, output logic y);
    function automatic logic par(input logic [7:0] x);
        return ^x;
    endfunction
    assign y = par(a);
endmodule
