// key: invalid-veryl:generate-label
module top #(parameter int N = 4) (input logic [7:0] a, output logic [7:0] y, output logic [7:0] z);
    for (genvar i = 0; i < 8; i++) begin : g_rev
        assign y[i] = a[7 - i];
    end
    if (N == 4) begin : g_a
        assign z = a;
    end else begin : g_b
        assign z = ~a;
    end
endmodule
