// key: behaviour:instance-parameter-override
module sub #(parameter int K = 1) (input logic [7:0] x, output logic [7:0] q);
    assign q = x + K;
endmodule
module top (input logic [7:0] a, output logic [7:0] y);
    sub #(.K(5)) u_sub (.x(a), .q(y));
endmodule
