// key: invalid-veryl:inside-operator
module top (input logic [7:0] a, output logic y);
    assign y = a inside {8'd1, 8'd2};
endmodule
