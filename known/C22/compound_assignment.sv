// key: behaviour:compound-assignment
module top (input logic [7:0] a, input logic [7:0] b, input logic c, output logic [7:0] y);
    always_comb begin
        if (c) begin
            y = a;
            y += b;
        end else begin
            y = b;
        end
    end
endmodule
