// key: behaviour:unpacked-dimension
module top (input logic [7:0] a, input logic [1:0] i, output logic [7:0] y);
    logic [7:0] m [0:3];
    assign m[0] = a;
    assign m[1] = ~a;
    assign m[2] = a + 8'd1;
    assign m[3] = a - 8'd1;
    assign y = m[i];
endmodule
