// key: behaviour:xnor-caret-tilde
module top (input logic [7:0] a, input logic [7:0] b, input logic [7:0] c, output logic [7:0] y);
    assign y = a ^~ b + c;
endmodule
