// key: invalid-veryl:conditional-operator
module top (input logic [7:0] a, input logic [7:0] b, input logic c, output logic [7:0] y);
    assign y = c ? a : b;
endmodule
