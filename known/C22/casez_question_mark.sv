// key: invalid-veryl:casez-question-mark
module top (input logic [3:0] a, output logic [1:0] y);
    always_comb begin
        casez (a)
            4'b1???: y = 2'd3;
            4'b01??: y = 2'd2;
            4'b001?: y = 2'd1;
            default: y = 2'd0;
        endcase
    end
endmodule
