// key: invalid-veryl:comment-after-last-port
module top (
    input  logic [7:0] a, // first operand
    output logic [7:0] y  // result
);
    assign y = a + 8'd1;
endmodule
