// key: invalid-veryl:relational-lt-gt
module top (input logic [7:0] a, input logic [7:0] b, output logic y, output logic z);
    assign y = a < b;
    assign z = a > b;
endmodule
