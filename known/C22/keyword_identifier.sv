// key: invalid-veryl:keyword-identifier
module top (input logic [7:0] in, output logic [7:0] out);
    assign out = in + 8'd1;
endmodule
