// key: behaviour:net-signed
module top (input logic signed [7:0] a, output logic [15:0] y);
    wire signed [7:0] w;
    assign w = a;
    assign y = w;
endmodule
