// key: behaviour:for-inclusive-bound
module top (input logic [7:0] a, output logic [7:0] y);
    always_comb begin
        for (int i = 0; i <= 7; i++) begin
            y[i] = a[7 - i];
        end
    end
endmodule
