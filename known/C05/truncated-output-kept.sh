#!/bin/bash
# C05 finding `crash/truncated-output-kept`:
# outputs are written in place (truncate, then write: utils.rs write_file_if_changed)
# and Incremental::dst_is_stale only asks "does the file exist and is the source
# older than the recorded emit time".  History: build; delete target/b.sv; the
# next build dies after truncating / half-writing target/b.sv (manifest and
# info.toml still describe the first build).  Every later build restores b.veryl
# from the cache, finds target/b.sv "fresh" and leaves the truncated file.
. "$(dirname "$0")/common.sh"
new_project p true
$VERYL build >/dev/null 2>&1
cp target/b.sv "$W/b.sv.good"
rm target/b.sv
cp -a . "$W/deleted"
# counting run (CRASH_AT far away: same point numbering as the crashing run)
VERYL_VERIF_LOG=$W/log VERYL_VERIF_CRASH_AT=999999 $VERYL build >/dev/null 2>&1
K=$(point_index "$W/log" write_file:half-written target/b.sv)
# back to the state before that build, at the same path (the cache holds absolute paths)
cd "$W"; rm -rf p; mv deleted p; cd p
VERYL_VERIF_CRASH_AT=$K $VERYL build >/dev/null 2>&1; echo "crashed build: exit $? (137 = killed at point $K, write_file:half-written target/b.sv)"
$VERYL build 2>&1 | grep -E "Restored|rror"; echo "recovery build: exit ${PIPESTATUS[0]}"
echo "--- target/b.sv after the recovery build: $(wc -c < target/b.sv) bytes, clean build: $(wc -c < "$W/b.sv.good") bytes"
if cmp -s target/b.sv "$W/b.sv.good"; then echo "SAME (defect not present)"; rc=0; else echo "DIFFERENT (defect present)"; rc=1; fi
rm -rf "$W"; exit $rc
