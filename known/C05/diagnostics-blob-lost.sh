#!/bin/bash
# C05 finding `damage/diagnostics-blob/warnings-lost`:
# the warnings of a cached file live in a separate blob named by the manifest
# entry (`diagnostics = "fragments/…"`).  Incremental::try_restore loads it
# with `Store::load_diagnostics` and, when the blob is missing / truncated /
# corrupt, restores the file anyway and silently drops its warnings
# (incremental.rs: `Err(x) => debug!("Failed to restore diagnostics …")`,
# or `None` -> nothing): a warm `veryl check` reports fewer warnings than a
# clean one.  The damage is detected but not treated as a miss.
. "$(dirname "$0")/common.sh"
new_project p true
$VERYL check > "$W/clean.txt" 2>&1
N_CLEAN=$(grep -c "^Warning" "$W/clean.txt")
BLOB=$(sed -n 's/^diagnostics = "\(.*\)"/\1/p' .build/cache/manifest.toml | head -1)
echo "diagnostics blob: $BLOB"
rm -f ".build/cache/$BLOB"
$VERYL check > "$W/warm.txt" 2>&1
N_WARM=$(grep -c "^Warning" "$W/warm.txt")
grep Restored "$W/warm.txt"
echo "--- warnings: clean check $N_CLEAN, warm check after deleting the blob $N_WARM"
if [ "$N_CLEAN" = "$N_WARM" ]; then echo "SAME (defect not present)"; rc=0; else echo "DIFFERENT (defect present)"; rc=1; fi
rm -rf "$W"; exit $rc
