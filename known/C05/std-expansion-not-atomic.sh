#!/bin/bash
# C05 finding `crash/std-expansion-not-atomic`:
# veryl_std::expand (crates/std/src/lib.rs) treats "the directory
# $XDG_CACHE_HOME/veryl/std/<hash> exists" as "the standard library is expanded",
# creates the directory first and then writes ~25 files in place.  A process
# that dies anywhere in between leaves a partial library that no later command
# ever repairs: files are missing (their .sv is never emitted) or cut in half
# (parse error), for every project of the user, until the cache is removed by hand.
. "$(dirname "$0")/common.sh"
new_project p false
cp -a . "$W/fresh"
# counting run (CRASH_AT far away: same point numbering as the crashing run); it is also the clean build
VERYL_VERIF_LOG=$W/log VERYL_VERIF_CRASH_AT=999999 $VERYL build >/dev/null 2>&1
N_CLEAN=$(find . -name '*.sv' | wc -l)
K=$(awk -F'\t' '$3=="std:file-half-written" {print $2; exit}' "$W/log")
rm -rf "$W/xdg"; mkdir -p "$W/xdg"; cd "$W"; rm -rf p; mv fresh p; cd p
VERYL_VERIF_CRASH_AT=$K $VERYL build >/dev/null 2>&1; echo "crashed build: exit $? (137 = killed at point $K, first std file half written)"
$VERYL build 2>&1 | grep -E "^Error" | head -3; echo "recovery build: exit ${PIPESTATUS[0]}"
N=$(find . -name '*.sv' | wc -l)
echo "--- emitted .sv files: $N, clean build: $N_CLEAN; std files in the cache: $(find "$W/xdg" -name '*.veryl' | wc -l)"
if [ "$N" = "$N_CLEAN" ]; then echo "SAME (defect not present)"; rc=0; else echo "DIFFERENT (defect present)"; rc=1; fi
rm -rf "$W"; exit $rc
