# sourced by the reproducers.  VERYL = a veryl binary built with --cfg veryl_verif
# (the harness build: crash injection through VERYL_VERIF_CRASH_AT needs the hooks)
VERYL=${VERYL:-/verif/.target/h/release/veryl}
[ -x "$VERYL" ] || VERYL=/verif/.target/a-fault/release/veryl
W=${W:-/verif/.work/known-c05-$$}
rm -rf "$W"; mkdir -p "$W/xdg"
export XDG_CACHE_HOME=$W/xdg NO_GRAPHICS=1
new_project() { # dir exclude_std
  mkdir -p "$W/$1/src"; cd "$W/$1"
  cat > Veryl.toml <<EOF
[project]
name = "prj"
version = "0.1.0"

[build]
sources = ["src"]
target = {type = "directory", path = "target"}
exclude_std = $2
incremental = true
EOF
  printf 'package PkgA {\n    const W: u32 = 4;\n}\n' > src/a.veryl
  printf 'module ModB (\n    i_a: input  logic<PkgA::W>,\n    o_a: output logic<PkgA::W>,\n) {\n    var unused_v: logic;\n    assign o_a = i_a + 1;\n}\n' > src/b.veryl
}
# point_index <log> <name> <path suffix>: index of the first logged point that matches
point_index() { awk -F'\t' -v n="$2" -v p="$3" '$3==n && $4 ~ p"$" {print $2; exit}' "$1"; }
