#!/bin/bash
# C05 finding `damage/blob/unverified-content`:
# blobs are content addressed (file name = BLAKE3 of the content) but
# Store::read_blob (crates/cache/src/lib.rs) only checks the 8-byte header, and
# Incremental::try_restore never compares Fragment::src_path with the file it is
# restoring.  A fragment blob whose payload was altered - here: replaced by
# the (valid) fragment of another file - is restored as it is:
#   (1) build; a.veryl's blob := b.veryl's blob; build            -> panic (exit 101)
#   (2) the same, then b.veryl is edited; build -> spurious duplicated_identifier error
# A clean build of the same sources succeeds in both cases.
. "$(dirname "$0")/common.sh"
new_project p true
$VERYL build >/dev/null 2>&1
FA=$(grep -A2 'src/a.veryl"\]' .build/cache/manifest.toml | sed -n 's/^fragment = "\(.*\)"/\1/p')
FB=$(grep -A2 'src/b.veryl"\]' .build/cache/manifest.toml | sed -n 's/^fragment = "\(.*\)"/\1/p')
cp -a . "$W/built"
cp ".build/cache/$FB" ".build/cache/$FA"
$VERYL build > "$W/o1.txt" 2>&1; R1=$?
grep -E "panicked|unwrap" "$W/o1.txt" | head -2
echo "(1) build after the swap: exit $R1"
cd "$W"; rm -rf p; mv built p; cd p
cp ".build/cache/$FB" ".build/cache/$FA"; printf '// edited\n' >> src/b.veryl
$VERYL build > "$W/o2.txt" 2>&1; R2=$?
grep -E "^Error|diagnostic code" "$W/o2.txt" | head -3
echo "(2) build after the swap and an edit of b.veryl: exit $R2"
rm -rf .build target prj.f
$VERYL build >/dev/null 2>&1; echo "clean build of the same sources: exit $?"
if [ "$R1" = 0 ] && [ "$R2" = 0 ]; then echo "SAME (defect not present)"; rc=0; else echo "DIFFERENT (defect present)"; rc=1; fi
rm -rf "$W"; exit $rc
