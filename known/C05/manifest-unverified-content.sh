#!/bin/bash
# C05 finding `damage/manifest/unverified-content`:
# .build/cache/manifest.toml carries no checksum and FileEntry ignores unknown
# keys.  ONE flipped bit that keeps the file parseable is believed: here the
# key `diagnostics` of b.veryl's entry becomes `eiagnostics`, the entry then
# says "no cached warnings", b.veryl is restored from its fragment and a warm
# `veryl check` reports one warning less than a clean one.  (Flips in a
# `dependents` path or in a blob path are believed the same way.)
. "$(dirname "$0")/common.sh"
new_project p true
$VERYL check > "$W/clean.txt" 2>&1
N_CLEAN=$(grep -c "^Warning" "$W/clean.txt")
sed -i 's/^diagnostics = /eiagnostics = /' .build/cache/manifest.toml
$VERYL check > "$W/warm.txt" 2>&1
N_WARM=$(grep -c "^Warning" "$W/warm.txt")
grep Restored "$W/warm.txt"
echo "--- warnings: clean check $N_CLEAN, warm check after the bit flip $N_WARM"
if [ "$N_CLEAN" = "$N_WARM" ]; then echo "SAME (defect not present)"; rc=0; else echo "DIFFERENT (defect present)"; rc=1; fi
rm -rf "$W"; exit $rc
