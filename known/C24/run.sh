#!/bin/bash
# C24 finding `emitted-sv-depends-on-order:generic-specialisations-in-registration-order`:
# the emitted text of the file that DEFINES a generic package/module lists one
# specialisation per instantiation, in the order the instantiating files were
# analysed (Symbol::generic_instances is a Vec filled during analysis;
# emitter.rs get_generic_maps / symbol.rs generic_maps iterate it as is).
# `veryl build` analyses files in sorted order, `veryl build f1 f2 ...` in the
# order given: the same project yields different bytes for g.sv.
#
# usage: VERYL=/path/to/veryl ./run.sh      (exit 1 = defect present)
set -u
HERE=$(cd "$(dirname "$0")" && pwd)
VERYL=${VERYL:-veryl}
W=$(mktemp -d /verif/.work/c24-known.XXXXXX)
export XDG_CACHE_HOME=$W/xdg NO_GRAPHICS=1
mkdir -p "$XDG_CACHE_HOME"
cp -r "$HERE/generic-instance-order" "$W/p1"
cp -r "$HERE/generic-instance-order" "$W/p2"
(cd "$W/p1" && $VERYL build >/dev/null 2>&1)
(cd "$W/p2" && $VERYL build src/b.veryl src/a.veryl src/g.veryl >/dev/null 2>&1)
echo "--- veryl build:";                                      grep '^package' "$W/p1/target/g.sv"
echo "--- veryl build src/b.veryl src/a.veryl src/g.veryl:";  grep '^package' "$W/p2/target/g.sv"
if cmp -s "$W/p1/target/g.sv" "$W/p2/target/g.sv"; then echo "SAME (defect not present)"; rc=0; else echo "DIFFERENT (defect present)"; rc=1; fi

# second finding `cli/run-to-run:dependency-projects-in-hashmap-order`: the
# filelist of a project with two path dependencies changes from run to run
# (Lockfile::paths iterates a HashMap with a per-process random hasher).
cp -r "$HERE/two-path-dependencies" "$W/td"
n=0
for i in 1 2 3 4 5 6 7 8 9 10; do
  (cd "$W/td/prj" && $VERYL build >/dev/null 2>&1)
  cp "$W/td/prj/prj.f" "$W/fl.$i"
done
kinds=$(md5sum "$W"/fl.* | cut -d' ' -f1 | sort -u | wc -l)
echo "two path dependencies: 10 builds wrote $kinds different filelists"
[ "$kinds" = 1 ] || { echo "DIFFERENT (defect present)"; rc=1; }
rm -rf "$W"
exit $rc
