#!/bin/bash
# C04 finding `output/deleted-map-not-regenerated` (low severity):
# a deleted .sv is re-emitted by the next warm build (dst_is_stale: missing dst
# = stale), a deleted .sv.map is not: the file is restored from the cache and
# nothing is emitted; a fresh-cache build writes the map again.
. "$(dirname "$0")/common.sh"
new_project p
sed -i 's/sourcemap_target = {type = "none"}/sourcemap_target = {type = "target"}/' Veryl.toml
printf 'module ModB (\n    o_dat: output logic<8>,\n) {\n    assign o_dat = 0;\n}\n' > src/b.veryl
$VERYL build >/dev/null 2>&1
rm target/b.sv.map
cold_copy cold
$VERYL build 2>&1 | grep Restored
(cd "$W/cold" && $VERYL build 2>&1 | grep Restored)
echo "with the cache: $(ls target | tr '\n' ' ')"
echo "fresh cache:    $(ls "$W/cold/target" | tr '\n' ' ')"
if [ -f target/b.sv.map ]; then echo "SAME (defect not present)"; rc=0; else echo "DIFFERENT (defect present)"; rc=1; fi
rm -rf "$W"; exit $rc
