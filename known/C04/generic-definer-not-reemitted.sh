#!/bin/bash
# C04 finding `output/generic-definer-not-reemitted`:
# the specialisations of a generic module/package are emitted into the file
# that DEFINES it; when a user in another file changes the generic argument,
# only the user is re-analysed, the definer is restored from the cache and its
# .sv keeps the old specialisation -> the emitted design no longer elaborates.
. "$(dirname "$0")/common.sh"
new_project p
printf 'module ModG::<W: u32> (\n    i: input  logic<W>,\n    o: output logic<W>,\n) {\n    assign o = ~i;\n}\n' > src/a.veryl
printf 'module ModB (\n    i: input  logic<8>,\n    o: output logic<8>,\n) {\n    inst u: ModG::<8> (i, o);\n}\n' > src/b.veryl
$VERYL build >/dev/null 2>&1
sed -i 's/8/16/g' src/b.veryl
cold_copy cold
$VERYL build 2>&1 | grep Restored
(cd "$W/cold" && $VERYL build 2>&1 | grep Restored)
echo "--- with the cache:  a.sv defines $(grep '^module' target/a.sv), b.sv instantiates $(grep ModG target/b.sv)"
echo "--- fresh cache:     a.sv defines $(grep '^module' "$W/cold/target/a.sv")"
if cmp -s target/a.sv "$W/cold/target/a.sv"; then echo "SAME (defect not present)"; rc=0; else echo "DIFFERENT (defect present)"; rc=1; fi
rm -rf "$W"; exit $rc
