#!/bin/bash
# Not a C04 violation (fresh and cached runs behave alike) but found by the
# vproj generator: a generic module instantiated with an argument that is
# defined in the USER's file (a package constant next to the instantiating
# module) panics at crates/analyzer/src/type_dag.rs:460 (WouldCycle: the
# specialisation lives in the definer's file and refers back to the user's
# file) -- but only when the definer's file sorts AFTER the user's file.
# With the definer named a.veryl the same project is accepted.  `incremental`
# is off.  C11-class crash and a C24-class order dependence.
. "$(dirname "$0")/common.sh"
new_project p
sed -i 's/incremental = true/incremental = false/' Veryl.toml
printf 'package PkgL {\n    const W: u32 = 8;\n}\nmodule Top (\n    o: output logic<PkgL::W>,\n) {\n    inst u: ModG::<PkgL::W> (\n        o: o,\n    );\n}\n' > src/b.veryl
printf 'module ModG::<W: u32> (\n    o: output logic<W>,\n) {\n    assign o = 0;\n}\n' > src/a.veryl
$VERYL check >/dev/null 2>&1; echo "definer = a.veryl: exit=$?"
mv src/a.veryl src/z.veryl
$VERYL check 2>&1 | grep -A1 panicked; echo "definer = z.veryl: exit=${PIPESTATUS[0]} (101 = panic)"
rm -rf "$W"
