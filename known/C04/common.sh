# sourced by the reproducers: VERYL = path of the veryl binary (default: the harness build)
VERYL=${VERYL:-/verif/.target/a-proj/release/veryl}
[ -x "$VERYL" ] || VERYL=/verif/.target/h/release/veryl
W=${W:-/verif/.work/known-c04-$$}
rm -rf "$W"; mkdir -p "$W/xdg"
export XDG_CACHE_HOME=$W/xdg NO_GRAPHICS=1
new_project() { # name
  mkdir -p "$W/$1/src"; cd "$W/$1"
  cat > Veryl.toml <<EOF
[project]
name = "prj"
version = "0.1.0"

[build]
sources = ["src"]
target = {type = "directory", path = "target"}
sourcemap_target = {type = "none"}
exclude_std = true
incremental = true
EOF
}
# cold_copy <dir>: copy of the current project with a fresh fragment cache, same mtimes
cold_copy() { rm -rf "$W/$1"; cp -a . "$W/$1"; rm -rf "$W/$1/.build/cache"; }
