#!/bin/bash
# C04 finding `output/check-stored-entry-trusted-by-build`:
# `veryl check` stores hashes/fragments without emitting; the next `veryl build`
# hits them and judges staleness by mtime only (incremental.rs dst_is_stale).
# Route (a): a source replaced by a version with an OLDER mtime, check, build.
# Route (b) (second half): `strip_comments = true` added to [build], check, build.
. "$(dirname "$0")/common.sh"
new_project p
printf 'package PkgA {\n    const WIDTH: u32 = 8;\n}\n' > src/a.veryl
printf 'module ModB (\n    o_dat: output logic<PkgA::WIDTH>,\n) {\n    assign o_dat = 0;\n}\n' > src/b.veryl
$VERYL build >/dev/null 2>&1
printf 'module ModB (\n    o_dat: output logic<PkgA::WIDTH>,\n) {\n    assign o_dat = 1;\n}\n' > src/b.veryl
touch -d '2020-01-01' src/b.veryl
$VERYL check >/dev/null 2>&1
cold_copy cold
$VERYL build 2>&1 | grep Restored
(cd "$W/cold" && $VERYL build 2>&1 | grep Restored)
echo "--- with the cache:"; grep o_dat target/b.sv | tail -1
echo "--- fresh cache:";    grep o_dat "$W/cold/target/b.sv" | tail -1
if cmp -s target/b.sv "$W/cold/target/b.sv"; then echo "(a) SAME (defect not present)"; rc=0; else echo "(a) DIFFERENT (defect present)"; rc=1; fi
# ---- route (b)
new_project q
printf '// a comment\nmodule ModC (\n    o: output logic,\n) {\n    assign o = 0;\n}\n' > src/c.veryl
$VERYL build >/dev/null 2>&1
sed -i 's/^incremental = true/incremental = true\nstrip_comments = true/' Veryl.toml
$VERYL check >/dev/null 2>&1
cold_copy coldq
$VERYL build 2>&1 | grep Restored
(cd "$W/coldq" && $VERYL build 2>&1 | grep Restored)
echo "--- with the cache:"; head -1 target/c.sv
echo "--- fresh cache:";    head -1 "$W/coldq/target/c.sv"
if cmp -s target/c.sv "$W/coldq/target/c.sv"; then echo "(b) SAME (defect not present)"; else echo "(b) DIFFERENT (defect present)"; rc=1; fi
rm -rf "$W"; exit $rc
