#!/bin/bash
# C04 finding `output/format-section-not-in-cache-key`:
# `[format] indent_width` changes the emitted SystemVerilog, but the global
# cache key (incremental.rs global_key) hashes only [build] and [lint]; after
# the change a warm build restores every file and keeps the old indentation.
. "$(dirname "$0")/common.sh"
new_project p
printf 'module ModB (\n    o_dat: output logic<8>,\n) {\n    assign o_dat = 0;\n}\n' > src/b.veryl
$VERYL build >/dev/null 2>&1
printf '\n[format]\nindent_width = 2\n' >> Veryl.toml
cold_copy cold
$VERYL build 2>&1 | grep Restored
(cd "$W/cold" && $VERYL build 2>&1 | grep Restored)
echo "--- with the cache:"; sed -n 2p target/b.sv
echo "--- fresh cache:";    sed -n 2p "$W/cold/target/b.sv"
if cmp -s target/b.sv "$W/cold/target/b.sv"; then echo "SAME (defect not present)"; rc=0; else echo "DIFFERENT (defect present)"; rc=1; fi
rm -rf "$W"; exit $rc
