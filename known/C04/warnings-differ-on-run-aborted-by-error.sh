#!/bin/bash
# C04 finding `diagnostics/warnings-differ-on-run-aborted-by-error`:
# a run that is aborted by an error reports a different set of warnings with
# the fragment cache: cached warnings of restored files are appended right
# after the restore pass (pipeline.rs append_cached), while a fresh run stops
# at the error before the pass that would have produced them.
. "$(dirname "$0")/common.sh"
new_project p
printf 'package PkgA {\n    const WIDTH: u32 = 8;\n}\n' > src/a.veryl
printf 'module ModB (\n    o_dat: output logic<PkgA::WIDTH>,\n) {\n    assign o_dat = 0;\n}\n' > src/b.veryl
printf 'module ModW {\n    let unused_var: logic = 1;\n}\n' > src/w.veryl
$VERYL check >/dev/null 2>&1      # exit 1: the warning; the cache is saved
rm src/a.veryl                    # b.veryl no longer resolves PkgA
cold_copy cold
$VERYL check 2>&1 | grep -E "Restored|^(Error|Warning): " > "$W/warm.txt"
(cd "$W/cold" && $VERYL check 2>&1 | grep -E "Restored|^(Error|Warning): " > "$W/cold.txt")
echo "--- with the cache:"; cat "$W/warm.txt"
echo "--- fresh cache:";    cat "$W/cold.txt"
if [ "$(grep -c '^Warning' "$W/warm.txt")" = "$(grep -c '^Warning' "$W/cold.txt")" ]; then echo "SAME (defect not present)"; rc=0; else echo "DIFFERENT (defect present)"; rc=1; fi
rm -rf "$W"; exit $rc
