#!/bin/bash
# C04 finding `diagnostics/fresh-run-reports-identical-warning-twice`:
# a warning inside a module that another file instantiates with a parameter
# override is reported twice by a fresh run (own pass 2 + elaboration of the
# instance; same file, code, message and span).  With the fragment cache, when
# the definer is restored and the user re-analysed, the key-based
# drop_cached_duplicates() removes both cached copies in favour of the one
# fresh copy: the warm run reports it once.
. "$(dirname "$0")/common.sh"
new_project p
printf 'module Leaf #(\n    param P: u32 = 1,\n) (\n    o: output logic<8>,\n) {\n    let _la: logic<8> = 3;\n    let _lb: logic = _la && _la;\n    assign o = P;\n}\n' > src/a.veryl
printf 'module Top (\n    o: output logic<8>,\n) {\n    inst u: Leaf #(\n        P: 2,\n    ) (\n        o: o,\n    );\n}\n' > src/b.veryl
$VERYL check >/dev/null 2>&1
printf 'module Top (\n    o: output logic<8>,\n) {\n    inst u: Leaf #(\n        P: 3,\n    ) (\n        o: o,\n    );\n}\n' > src/b.veryl
cold_copy cold
$VERYL check 2>&1 | grep -E "Restored|^Warning: " > "$W/warm.txt"
(cd "$W/cold" && $VERYL check 2>&1 | grep -E "Restored|^Warning: " > "$W/cold.txt")
echo "--- with the cache:"; cat "$W/warm.txt"
echo "--- fresh cache:";    cat "$W/cold.txt"
if [ "$(grep -c '^Warning' "$W/warm.txt")" = "$(grep -c '^Warning' "$W/cold.txt")" ]; then echo "SAME (defect not present)"; rc=0; else echo "DIFFERENT (defect present)"; rc=1; fi
rm -rf "$W"; exit $rc
