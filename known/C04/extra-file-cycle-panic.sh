#!/bin/bash
# Not a C04 violation (cold and warm behave the same) but found by the C04
# project generator: two files that need each other through different items
# (no symbol-level cycle) make every analysing command panic at
# crates/analyzer/src/type_dag.rs:460 (`file_dag.add_edge(..).unwrap()` ->
# WouldCycle), with or without `incremental`.  Belongs to C11.
. "$(dirname "$0")/common.sh"
new_project p
sed -i 's/incremental = true/incremental = false/' Veryl.toml
printf 'package PkgA {\n    const W: u32 = 8;\n}\nmodule ModA (\n    o: output logic<PkgB::W>,\n) {\n    assign o = 0;\n}\n' > src/a.veryl
printf 'package PkgB {\n    const W: u32 = PkgA::W;\n}\n' > src/b.veryl
$VERYL check 2>&1 | grep -v '^\[INFO' | head -5
rc=${PIPESTATUS[0]}
echo "exit=$rc (101 = panic)"
rm -rf "$W"; [ "$rc" != 101 ]
