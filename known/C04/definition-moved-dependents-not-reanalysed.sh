#!/bin/bash
# C04 finding `output/definition-moved-dependents-not-reanalysed`:
# a source file is renamed (or its module moved to a new file) AND its
# interface changes in the same step.  The new path has no cache entry, so it
# misses, but the dependents recorded under the OLD path are never consulted
# (incremental.rs open(): dependents are looked up only for paths that are
# still present): the unchanged user is restored and keeps stale emitted code.
. "$(dirname "$0")/common.sh"
new_project p
printf 'module Leaf (\n    i_a: input  logic<8>,\n    i_d: input  logic<8> = 0,\n    o_b: output logic<8>,\n) {\n    assign o_b = i_a + i_d;\n}\n' > src/a.veryl
printf 'module Top (\n    a: input  logic<8>,\n    o: output logic<8>,\n) {\n    inst u: Leaf (\n        i_a: a,\n        o_b: o,\n    );\n}\n' > src/b.veryl
$VERYL build >/dev/null 2>&1
mv src/a.veryl src/c.veryl
sed -i 's/= 0,/= 1,/' src/c.veryl
cold_copy cold
$VERYL build 2>&1 | grep Restored
(cd "$W/cold" && $VERYL build 2>&1 | grep Restored)
echo "--- with the cache:"; grep i_d target/b.sv
echo "--- fresh cache:";    grep i_d "$W/cold/target/b.sv"
if cmp -s target/b.sv "$W/cold/target/b.sv"; then echo "SAME (defect not present)"; rc=0; else echo "DIFFERENT (defect present)"; rc=1; fi
rm -rf "$W"; exit $rc
