#!/bin/bash
# C04 finding `diagnostics/cached-warnings-overwritten-by-rederived-subset`:
# a file with a pass-2 warning (here unsigned_arith_shift) and an
# unused_variable warning.  1st check: both cached.  2nd check: the file is
# restored, both are replayed, post-pass-2 re-derives unused_variable fresh,
# and Incremental::save() overwrites the file's kept diagnostics blob with the
# fresh subset only.  3rd check: the pass-2 warning is gone.
. "$(dirname "$0")/common.sh"
new_project p
printf 'module ModW (\n    i_0: input  logic<8>,\n    o_0: output logic<8>,\n) {\n    let unused_1: logic = 1;\n    let _t2: logic<8> = 1;\n    let _s2: logic<8> = _t2 >>> 1;\n    assign o_0 = i_0;\n}\n' > src/w.veryl
$VERYL check >/dev/null 2>&1
$VERYL check >/dev/null 2>&1
cold_copy cold
$VERYL check 2>&1 | grep -E "Restored|^Warning: " > "$W/warm.txt"
(cd "$W/cold" && $VERYL check 2>&1 | grep -E "Restored|^Warning: " > "$W/cold.txt")
echo "--- with the cache:"; cat "$W/warm.txt"
echo "--- fresh cache:";    cat "$W/cold.txt"
if [ "$(grep -c '^Warning' "$W/warm.txt")" = "$(grep -c '^Warning' "$W/cold.txt")" ]; then echo "SAME (defect not present)"; rc=0; else echo "DIFFERENT (defect present)"; rc=1; fi
rm -rf "$W"; exit $rc
