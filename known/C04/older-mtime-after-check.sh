#!/bin/bash
# C04 finding `output/older-mtime-after-check`:
# a source replaced by a version with an OLDER mtime, then `veryl check`, then
# `veryl build`: check stores the new hash, build then judges staleness by
# mtime only (incremental.rs dst_is_stale) and keeps the stale .sv.
. "$(dirname "$0")/common.sh"
new_project p
printf 'package PkgA {\n    const WIDTH: u32 = 8;\n}\n' > src/a.veryl
printf 'module ModB (\n    o_dat: output logic<PkgA::WIDTH>,\n) {\n    assign o_dat = 0;\n}\n' > src/b.veryl
$VERYL build >/dev/null 2>&1
printf 'module ModB (\n    o_dat: output logic<PkgA::WIDTH>,\n) {\n    assign o_dat = 1;\n}\n' > src/b.veryl
touch -d '2020-01-01' src/b.veryl
$VERYL check >/dev/null 2>&1
cold_copy cold
$VERYL build 2>&1 | grep Restored
(cd "$W/cold" && $VERYL build 2>&1 | grep Restored)
echo "--- with the cache:"; grep o_dat target/b.sv | tail -1
echo "--- fresh cache:";    grep o_dat "$W/cold/target/b.sv" | tail -1
if cmp -s target/b.sv "$W/cold/target/b.sv"; then echo "SAME (defect not present)"; rc=0; else echo "DIFFERENT (defect present)"; rc=1; fi
rm -rf "$W"; exit $rc
