#!/usr/bin/env python3
"""Line/token-level delta debugging of a C08/C09 failure: keeps shrinking the text
while `vc-front fmt FILE [align]` still reports equal=false.  Debugging aid only."""
import subprocess, sys, json, re
BIN='/verif/.target/h/release/vc-front'
def fails(text, align):
    open('/verif/.work/dd.veryl','w',newline='').write(text)
    r=subprocess.run([BIN,'fmt','/verif/.work/dd.veryl']+(['align'] if align else []),capture_output=True,text=True)
    return 'equal=false' in r.stdout
def ddmin(items, join, align):
    n=2
    while len(items)>=2:
        chunk=max(1,len(items)//n); reduced=False
        i=0
        while i<len(items):
            cand=items[:i]+items[i+chunk:]
            if cand and fails(join(cand),align):
                items=cand; n=max(n-1,2); reduced=True
            else:
                i+=chunk
        if not reduced:
            if chunk==1: break
            n=min(n*2,len(items))
    return items
rep=json.load(open(sys.argv[1])); x=rep['input']['x']; align='vertical_align=true' in rep['input']['format']
assert fails(x,align), "does not fail with default widths; tool only handles default indent/max_width"
lines=ddmin(x.splitlines(keepends=True), ''.join, align)
toks=ddmin(re.split(r'(\s+)',''.join(lines)), ''.join, align)
print(repr(''.join(toks)))
