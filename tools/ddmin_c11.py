#!/usr/bin/env python3
"""Development aid for C11 (not used by any check): line- then token-level delta debugging
of a failing case.  Keeps shrinking files[0] while the mirrored pipeline (`vc-front
c11-worker`) still fails *the same way* (same panic file+message, or a signal in the same
pipeline); the result must then be confirmed with the real binary (c11_run.py cli / c11_ls.py).

  ddmin_c11.py REPLAY.json OUT.json [--modes build,fmt,ls] [--timeout S]
"""
import json, re, sys, os
sys.path.insert(0, os.path.dirname(__file__))
import c11_run

a = sys.argv[1:]
src, dst = a[0], a[1]
opt = {"--modes": None, "--timeout": "60"}
i = 2
while i < len(a):
    opt[a[i]] = a[i + 1]
    i += 2
rep = json.load(open(src))
p = rep.get("payload") or rep.get("input")
files = p["files"]
toml = p.get("toml", c11_run.DEFAULT_TOML)
modes = (opt["--modes"] or ",".join(p.get("modes") or ["build", "fmt", "ls"])).split(",")
timeout = float(opt["--timeout"])


def norm(msg):
    if msg.startswith("PANIC"):
        m = re.match(r"PANIC (\S+) at ([^:]+):\d+:\d+: (.*?)( frames=.*)?$", msg)
        if m:
            text = re.sub(r"\d+", "N", m.group(3).split('"')[0])[:80]
            return ("panic", m.group(2), text)
    if msg.startswith("SIGNAL"):
        m = re.match(r"SIGNAL rc=\S+ in (\w+)/", msg)
        return ("signal", m.group(1) if m else "")
    if msg.startswith("TIMEOUT"):
        return ("timeout",)
    return None


def run(text):
    rc, msg = c11_run.worker([[files[0][0], text]] + files[1:], toml, modes, timeout)
    return norm(msg), msg


want, first = run(files[0][1])
assert want is not None, f"the case does not fail in the worker: {first}"
print("target:", want, file=sys.stderr)
evals = 0


def fails(text):
    global evals
    evals += 1
    got, _ = run(text)
    return got == want


def ddmin(items, join):
    n = 2
    while len(items) >= 2:
        chunk = max(1, len(items) // n)
        reduced = False
        i = 0
        while i < len(items):
            cand = items[:i] + items[i + chunk:]
            if cand and fails(join(cand)):
                items = cand
                n = max(n - 1, 2)
                reduced = True
            else:
                i += chunk
        if not reduced:
            if chunk == 1:
                break
            n = min(n * 2, len(items))
    return items


x = files[0][1]
lines = ddmin(x.splitlines(keepends=True), "".join)
toks = ddmin(re.findall(r"\s+|[A-Za-z_$][A-Za-z0-9_$]*|\d[\w']*|'[\w]+|\"[^\"]*\"|::<|::|[^\sA-Za-z0-9_]", "".join(lines)), "".join)
text = "".join(toks)
text = re.sub(r"[ \t]+\n", "\n", re.sub(r"\n\s*\n+", "\n", text)).strip() + "\n"
if not fails(text):
    text = "".join(toks)
_, msg = run(text)
rep_out = {"property": "C11", "sub": "finding", "choices": None, "signature": rep.get("signature"), "message": msg,
           "payload": {"files": [[files[0][0], text]] + files[1:], "toml": toml, "modes": modes, "family": p.get("family", "mutant"), "tag": p.get("tag", p.get("family", "mutant"))}}
json.dump(rep_out, open(dst, "w"), indent=1)
print(f"{len(x)} -> {len(text)} bytes in {evals} evaluations: {msg[:200]}", file=sys.stderr)
print(text)
