#!/usr/bin/env python3
"""Merge known_findings.d/<ID>.json (written while a check was developed) into
known_findings.json; entries are unique by (property, key); an entry already in
known_findings.json wins.  `--fixed ID KEY COMMIT` marks an entry fixed."""
import json, glob, sys, os
R = '/verif'
main = json.load(open(f'{R}/known_findings.json'))
seen = {(e['property'], e['key']) for e in main}
args = sys.argv[1:]
only = None
if args and args[0] == '--only':
    only = set(args[1].split(',')); args = args[2:]
for f in sorted(glob.glob(f'{R}/known_findings.d/*.json')):
    if only is not None and os.path.basename(f)[:-5] not in only:
        continue
    for e in json.load(open(f)):
        if (e['property'], e['key']) not in seen:
            main.append(e); seen.add((e['property'], e['key']))
while args and args[0] == '--fixed':
    _, pid, key, commit = args[:4]; args = args[4:]
    for e in main:
        if e['property'] == pid and e['key'] == key:
            e['status'] = 'fixed'; e['commit'] = commit
main.sort(key=lambda e: (e['property'], e['status'] != 'fixed', e['key']))
json.dump(main, open(f'{R}/known_findings.json', 'w'), indent=2, ensure_ascii=False)
print(len(main), 'entries;', sum(e['status'] == 'known' for e in main), 'known,', sum(e['status'] == 'fixed' for e in main), 'fixed')
