#!/bin/bash
# final.sh [ID...] : (re)build the engines of the given (default: all claimed) properties in
# /verif/.target/h, run each quick tier from /verif against /repo, report one line per check.
cd /verif
if [ $# -eq 0 ]; then set -- $(python3 -c "import json;print(' '.join(c['property_id'] for c in json.load(open('/verif/MANIFEST.json'))['checks']))"); fi
for id in "$@"; do
  out=/verif/.work/final-$id.log
  s=$(date +%s)
  ./check $id quick > $out 2>&1; rc=$?
  e=$(date +%s)
  echo "$id rc=$rc $((e-s))s known=$(grep -c '^KNOWN-FINDING' $out) viol=$(grep -c '^VIOLATION' $out) | $(grep -E "^$id quick:" $out | tail -1)"
done
python3-vt /verif/tools/validate.py | grep -v "ok$"
