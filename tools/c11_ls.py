#!/usr/bin/env python3
"""Development aid for C11 (not used by any check): open one file in the REAL language
server (`veryl-ls`) and report whether the server survives.

  c11_ls.py FILE.veryl|REPLAY.json [--toml T.toml] [--timeout S] [--format]

The file is written into a scratch project, the server gets initialize / initialized /
textDocument/didOpen (and, with --format, textDocument/formatting), and we wait for the
second publishDiagnostics of the document (did_open analyses twice) or for the server to
die.  Exit 0 = server alive and answered, 1 = server died (exit status / signal shown),
2 = no answer within the timeout (server alive: hang).
"""
import json, os, subprocess, sys, tempfile, shutil, time, threading, select

BIN = os.environ.get("C11_BIN_DIR", "/verif/.target/a-front/release")
DEFAULT_TOML = '[project]\nname = "prj"\nversion = "0.1.0"\n[build]\nsources = ["src"]\ntarget = {type = "directory", path = "target"}\nexclude_std = true\n'


def frame(obj):
    b = json.dumps(obj).encode()
    return b"Content-Length: %d\r\n\r\n" % len(b) + b


def main():
    a = sys.argv[1:]
    path = a[0]
    opt = {"--toml": None, "--timeout": "60"}
    fmt = "--format" in a
    a = [x for x in a if x != "--format"]
    i = 1
    while i < len(a):
        opt[a[i]] = a[i + 1]
        i += 2
    toml = open(opt["--toml"]).read() if opt["--toml"] else DEFAULT_TOML
    if path.endswith(".json"):
        r = json.load(open(path))
        p = r.get("payload") or r.get("input")
        files = p["files"]
        toml = p.get("toml", toml)
    else:
        files = [["a.veryl", open(path).read()]]
    d = tempfile.mkdtemp(prefix="c11ls-", dir="/verif/.work")
    try:
        os.makedirs(d + "/src")
        open(d + "/Veryl.toml", "w").write(toml)
        for n, t in files:
            open(f"{d}/src/{n}", "w").write(t)
        env = dict(os.environ, XDG_CACHE_HOME="/verif/.work/a-front/cache", RUST_BACKTRACE="0")
        p = subprocess.Popen([f"{BIN}/veryl-ls"], stdin=subprocess.PIPE, stdout=subprocess.PIPE, stderr=subprocess.PIPE, cwd=d, env=env)
        uri = f"file://{d}/src/{files[0][0]}"
        err = []
        threading.Thread(target=lambda: err.append(p.stderr.read()), daemon=True).start()
        buf = b""
        state = {"diags": 0, "codes": [], "ids": {}}

        def pump(until, deadline):
            nonlocal buf
            while time.time() < deadline:
                if until():
                    return True
                if p.poll() is not None:
                    return False
                r, _, _ = select.select([p.stdout], [], [], 0.2)
                if not r:
                    continue
                chunk = os.read(p.stdout.fileno(), 65536)
                if not chunk:
                    return False
                buf += chunk
                while True:
                    k = buf.find(b"\r\n\r\n")
                    if k < 0:
                        break
                    n = int(buf[:k].split(b"Content-Length:")[1].split(b"\r\n")[0])
                    if len(buf) < k + 4 + n:
                        break
                    msg = json.loads(buf[k + 4:k + 4 + n])
                    buf = buf[k + 4 + n:]
                    if msg.get("method") == "textDocument/publishDiagnostics":
                        state["diags"] += 1
                        state["codes"] = sorted({str(x.get("code")) for x in msg["params"]["diagnostics"]})
                    elif msg.get("method") == "window/workDoneProgress/create":
                        p.stdin.write(frame({"jsonrpc": "2.0", "id": msg["id"], "result": None}))
                        p.stdin.flush()
                    elif "id" in msg and "method" not in msg:
                        state["ids"][msg["id"]] = msg
            return until()

        deadline = time.time() + float(opt["--timeout"])
        try:
            p.stdin.write(frame({"jsonrpc": "2.0", "id": 1, "method": "initialize", "params": {"processId": os.getpid(), "rootUri": f"file://{d}", "capabilities": {}}}))
            p.stdin.flush()
            pump(lambda: 1 in state["ids"], deadline)
            p.stdin.write(frame({"jsonrpc": "2.0", "method": "initialized", "params": {}}))
            p.stdin.write(frame({"jsonrpc": "2.0", "method": "textDocument/didOpen", "params": {"textDocument": {"uri": uri, "languageId": "veryl", "version": 1, "text": files[0][1]}}}))
            p.stdin.flush()
            pump(lambda: state["diags"] >= 1, deadline)
            if fmt:
                p.stdin.write(frame({"jsonrpc": "2.0", "id": 2, "method": "textDocument/formatting", "params": {"textDocument": {"uri": uri}, "options": {"tabSize": 4, "insertSpaces": True}}}))
                p.stdin.flush()
                pump(lambda: 2 in state["ids"], deadline)
            # a later request whose answer shows the server thread is still serving
            p.stdin.write(frame({"jsonrpc": "2.0", "id": 3, "method": "textDocument/semanticTokens/full", "params": {"textDocument": {"uri": uri}}}))
            p.stdin.flush()
            pump(lambda: 3 in state["ids"], deadline)
        except BrokenPipeError:
            pass
        diags, codes = state["diags"], state["codes"]
        answered = 3 in state["ids"] and "error" not in state["ids"][3]
        rc = p.poll()
        if rc is None and answered:
            print(f"ALIVE: server answered after didOpen ({diags} publishDiagnostics, codes {codes[:6]})")
            p.kill()
            sys.exit(0)
        if rc is None:
            # the tower-lsp front end may stay up while the server thread is gone (panic) or busy (hang)
            time.sleep(0.2)
            e = b"".join(x for x in err if x).decode(errors="replace")
            p.kill()
            time.sleep(0.2)
            e = e or b"".join(x for x in err if x).decode(errors="replace")
            lines = [l for l in e.split("\n") if "panicked" in l or "overflowed" in l]
            if lines:
                print(f"SERVER THREAD DIED (process still up, no answer): {' | '.join(lines)[:400]}")
                sys.exit(1)
            print(f"NO ANSWER within {opt['--timeout']} s, process alive ({diags} publishDiagnostics)")
            sys.exit(2)
        time.sleep(0.3)
        e = b"".join(x for x in err if x).decode(errors="replace")
        lines = [l for l in e.split("\n") if l.strip()][-3:]
        print(f"DIED rc={rc}: {' | '.join(lines)[:500]}")
        sys.exit(1)
    finally:
        shutil.rmtree(d, ignore_errors=True)


if __name__ == "__main__":
    main()
