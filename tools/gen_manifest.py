#!/usr/bin/env python3
"""Writes /verif/MANIFEST.json from the table below (claimed checks) and
properties.jsonl (everything else goes under not_applicable with its reason)."""
import json, subprocess
ROOT = '/verif'
CLAIMED = {
 # id: (engine/bin, category, technique, level text, level note, design ref)
 'C08': ('vc-front', 'exploration', 'proptest choice-sequence generators: re-laid / re-spaced corpus x [format] settings; oracle fmt(fmt(x)) == fmt(x)',
         'Generated-input search (thousands of re-laid, re-spaced and as-shipped texts x generated format settings per run) against the idempotence oracle; failures shrink to a replay file. Found the property does not hold when the first pass changes the line structure (two listed findings); on text whose line structure the formatter keeps it is decided by search and is violation-free on the current tree.',
         'Trusts Parser::parse + analyze_pass1 + Formatter::format being what `veryl fmt` runs (read from cmd_fmt.rs). Sampling, not exhaustive; inputs derive from the ~320 corpus files (testcases + std).', 'C08'),
 'C09': ('vc-front', 'exploration', 'proptest generators: re-laid corpus with injected comments x [format] settings; oracle = token-sequence / comment-sequence equality + equal emitted SV token stream',
         'Generated-input search against a two-directional oracle (nothing dropped, nothing invented: token sequence, comment sequence, emitted SV); thousands of cases per run, shrinking to a replay file.',
         'Token witness = parser token positions plus the text between them; optional trailing commas are normalised as the property allows. Emitted-SV clause only when the file analyses cleanly on its own.', 'C09'),
 'C10': ('vc-front', 'exploration', 'proptest generators: token-level edits + junk bytes on corpus files, junk-rich strings, generated deep-nesting / long-run shapes parsed in a subprocess; oracle = returns Ok/Err without panic or signal, diagnostic span inside input',
         'Generated-input search (~25 000 inputs per quick run) against the crash/termination/span oracle; pathological nesting runs in a subprocess so a stack overflow is observed as a signal and reported as a violation, not as a dead check.',
         'Span bound = the newline-terminated copy the parser lexes. Subprocess time-outs (240 s) and SIGKILL are inconclusive (skipped), never violations. Quick tier nests to depth 2 000; 100 000 only in thorough.', 'C10'),
 'C12': ('vc-front', 'exploration', 'proptest generators: re-laid corpus with multi-byte comments/strings; oracle = source[pos..pos+len] == token text and line/column recomputed from the text',
         'Generated-input search against an independent position oracle recomputed from the raw text, for every token and comment of every generated file; one defect repaired (fix: commit), one recorded (external lexer crate).',
         'Oracle recomputes line/column by counting characters in the source; trusts only that token text is what the parser reports.', 'C12'),
 'C28': ('vc-doc', 'exploration', 'proptest choice-sequence generator of Doc trees (emitter-style with anchors / formatter-style with break-only text) x RenderOpts; oracle = leaf sequence of the output (both directions), break-only text present iff a witness Line of its group rendered as newline, anchor line/column recomputed from the output text',
         'Generated-input search (1.5 million documents per quick run, ~25% with a broken and a flat group) against a content/anchor oracle recomputed from the rendered text alone; failures shrink to a replay file. One defect found (anchor column after a multi-line block comment).',
         'Documents are built the way the emitter and formatter build them (node kinds and positions read from their builders), not taken from real emitter runs; pad widths and trailing-blank stripping are not asserted.', 'C28'),
 'C29': ('vc-doc', 'exploration', 'stateful model-based testing: generated Vec<Op> over the Store API interpreted against the real store in a scratch directory and an in-memory model (last saved map + blob bytes); invariants after every reopen and save',
         'Generated operation histories (about 5 000 per quick run, 80% with save + reopen + identical re-scan) checked step by step against a reference model, including shared blobs, key changes, tampered manifests and the skipped-write path; failing histories shrink as one value.',
         'Only sequences the real callers can produce (save after a successful build, set_* on entries of the current build). Blob-file damage and concurrent stores belong to C05/C30.', 'C29'),
}
props = [json.loads(l) for l in open(f'{ROOT}/properties.jsonl')]
NA_REASON = json.load(open(f'{ROOT}/tools/not_claimed.json'))
hook_commits = ['90905ee']
checks = []
for p in props:
    i = p['id']
    if i not in CLAIMED:
        continue
    eng, cat, tech, text, note, ref = CLAIMED[i]
    checks.append({
        'property_id': i,
        'quick_cmd': f'./check {i} quick',
        'thorough_cmd': f'./check {i} thorough',
        'evidence_file': f'evidence/{i}.json',
        'replay_cmd_template': f'./check {i} quick --replay {{path}}',
        'engine': eng,
        'level_claimed': {'category': cat, 'text': text, 'design_ref': f'DESIGN.md §2 {ref}'},
        'level_note': note,
        'technique': tech,
    })
engines = {}
for c in checks:
    engines.setdefault(c['engine'], []).append(c['property_id'])
m = {
 'version': 1,
 'setup_cmd': './setup.sh',
 'hooks': {
   'guard': '--cfg veryl_verif',
   'enable': 'build.rustflags contain `--cfg veryl_verif` (set in /verif/harness/.cargo/config.toml); every harness binary, including the real veryl / veryl-ls binaries (harness packages vcli / vls whose bin targets are /repo\'s own main.rs files), is built by ./check with the guard on. Hooks: veryl_path::verif::point (write/lock/cache-store step markers: log, crash-at-k, pause on a socket) and veryl_simulator::backend::aot_c::verif_gate (swap point of the asynchronous C backend)',
   'baseline_off_cmd': 'cd /repo && cargo test --workspace --no-fail-fast --offline',
   'source_commits': hook_commits,
   'add_only': True,
 },
 'engines': [{'name': e, 'path': f'harness/{e}', 'serves_properties': ids,
              'kind_free_text': 'Rust binary linking the /repo crates by path; proptest-driven choice-sequence generators (vcore::Draw), shrinking, replay files, evidence writer'} for e, ids in engines.items()],
 'checks': checks,
 'notes': 'Property-based testing / fuzzing only. `./check <ID> <quick|thorough> [--replay FILE]` rebuilds the harness against /repo\'s working tree (hooks on) and runs the check; exit 0 held / 1 VIOLATION / 2 inconclusive. Known findings: known_findings.json (+ reproducers under known/). See DESIGN.md.',
 'not_applicable': [{'property_id': p['id'], 'reason': NA_REASON.get(p['id'], NA_REASON['_default'])} for p in props if p['id'] not in CLAIMED],
}
json.dump(m, open(f'{ROOT}/MANIFEST.json', 'w'), indent=1)
print('checks:', [c['property_id'] for c in checks])
