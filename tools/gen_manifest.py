#!/usr/bin/env python3
"""Writes /verif/MANIFEST.json from the table below (claimed checks) and
properties.jsonl (everything else goes under not_applicable with its reason)."""
import json, subprocess
ROOT = '/verif'
CLAIMED = {k: (v['engine'], v['category'], v['technique'], v['text'], v['note'], k) for k, v in json.load(open(f'{ROOT}/tools/claims.json')).items()}
props = [json.loads(l) for l in open(f'{ROOT}/properties.jsonl')]
NA_REASON = json.load(open(f'{ROOT}/tools/not_claimed.json'))
hook_commits = ['90905ee']
checks = []
for p in props:
    i = p['id']
    if i not in CLAIMED:
        continue
    eng, cat, tech, text, note, ref = CLAIMED[i]
    checks.append({
        'property_id': i,
        'quick_cmd': f'./check {i} quick',
        'thorough_cmd': f'./check {i} thorough',
        'evidence_file': f'evidence/{i}.json',
        'replay_cmd_template': f'./check {i} quick --replay {{path}}',
        'engine': eng,
        'level_claimed': {'category': cat, 'text': text, 'design_ref': f'DESIGN.md §2 {ref}'},
        'level_note': note,
        'technique': tech,
    })
engines = {}
for c in checks:
    engines.setdefault(c['engine'], []).append(c['property_id'])
m = {
 'version': 1,
 'setup_cmd': './setup.sh',
 'hooks': {
   'guard': '--cfg veryl_verif',
   'enable': 'build.rustflags contain `--cfg veryl_verif` (set in /verif/harness/.cargo/config.toml); every harness binary, including the real veryl / veryl-ls binaries (harness packages vcli / vls whose bin targets are /repo\'s own main.rs files), is built by ./check with the guard on. Hooks: veryl_path::verif::point (write/lock/cache-store step markers: log, crash-at-k, pause on a socket) and veryl_simulator::backend::aot_c::verif_gate (swap point of the asynchronous C backend)',
   'baseline_off_cmd': 'cd /repo && cargo test --workspace --no-fail-fast --offline',
   'source_commits': hook_commits,
   'add_only': True,
 },
 'engines': [{'name': e, 'path': f'harness/{e}', 'serves_properties': ids,
              'kind_free_text': 'Rust binary linking the /repo crates by path; proptest-driven choice-sequence generators (vcore::Draw), shrinking, replay files, evidence writer'} for e, ids in engines.items()],
 'checks': checks,
 'notes': 'Property-based testing / fuzzing only. `./check <ID> <quick|thorough> [--replay FILE]` rebuilds the harness against /repo\'s working tree (hooks on) and runs the check; exit 0 held / 1 VIOLATION / 2 inconclusive. Known findings: known_findings.json (+ reproducers under known/). See DESIGN.md.',
 'not_applicable': [{'property_id': p['id'], 'reason': NA_REASON.get(p['id'], NA_REASON['_default'])} for p in props if p['id'] not in CLAIMED],
}
json.dump(m, open(f'{ROOT}/MANIFEST.json', 'w'), indent=1)
print('checks:', [c['property_id'] for c in checks])
