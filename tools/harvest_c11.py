#!/usr/bin/env python3
# development aid (not used by any check): run C11 over seeds, list unlisted panic signatures with reproducers
import json,glob,os,subprocess,sys,re,hashlib
seeds=sys.argv[1:] or ['1']
kf=json.load(open('/verif/known_findings.json'))
have={e['key'] for e in kf}
for s in seeds:
    while True:
        subprocess.run(['rm','-rf','/verif/replays/C11'])
        p=subprocess.run(['/verif/.target/h/release/vc-front','C11','quick'],capture_output=True,text=True,env={**os.environ,'VERIF_SEED':s})
        new=0
        for f in glob.glob('/verif/replays/C11/*.json'):
            r=json.load(open(f)); sig=r['signature']
            if sig in have or not sig.startswith('panic@'): 
                if sig not in have: print('OTHER',sig)
                continue
            have.add(sig); new+=1
            slug=re.sub(r'[^a-z0-9]+','-',sig.lower())[:60]+'-'+hashlib.md5(sig.encode()).hexdigest()[:6]
            out={"property":"C11","sub":"finding","choices":None,"signature":sig,"message":r['message'],"payload":{"files":r['input']['files']}}
            json.dump(out,open(f'/verif/known/C11/{slug}.json','w'),indent=1)
            kf.append({"property":"C11","key":sig,"status":"known","what":"the analyzer panics instead of reporting a diagnostic: "+r['message'][:200],"replay":f"known/C11/{slug}.json"})
            json.dump(kf,open('/verif/known_findings.json','w'),indent=2)
            print('seed',s,'NEW',sig,'|',r['message'][:160])
        tail=[l for l in p.stdout.split('\n') if 'quick:' in l]
        print('seed',s,tail)
        if new==0: break
