#!/usr/bin/env python3
# development aid (not used by any check): run `vc-front C11` in harvest mode over seeds;
# every unlisted failure signature is saved once (first input) under the harvest dir.
#   harvest_c11.py <seed> [<seed> ...]   env: C11_CASES, C11_ONLY, C11_BIN_DIR, HARVEST_DIR, TIER
import json, glob, os, subprocess, sys, time
seeds = sys.argv[1:] or ['1']
bin_dir = os.environ.get('C11_BIN_DIR', '/verif/.target/a-front/release')
hdir = os.environ.get('HARVEST_DIR', '/verif/.work/a-front/harvest')
out = os.environ.get('VERIF_OUT', '/verif/.work/a-front/out')
os.makedirs(out + '/.work', exist_ok=True)
tier = os.environ.get('TIER', 'quick')
for s in seeds:
    before = set(os.listdir(hdir)) if os.path.isdir(hdir) else set()
    t0 = time.time()
    env = {**os.environ, 'VERIF_SEED': s, 'C11_HARVEST': hdir, 'VERIF_OUT': out}
    p = subprocess.run([bin_dir + '/vc-front', 'C11', tier], capture_output=True, text=True, env=env)
    after = set(os.listdir(hdir)) if os.path.isdir(hdir) else set()
    tail = [l for l in p.stdout.split('\n') if ' quick:' in l or ' thorough:' in l or 'INCONCLUSIVE' in l or 'VIOLATION' in l]
    print(f'seed {s}: rc={p.returncode} {time.time()-t0:.0f}s new={len(after-before)} {tail}', flush=True)
    for f in sorted(after - before):
        r = json.load(open(f'{hdir}/{f}'))
        print('   NEW', f, r['signature'], '|', r['message'].split('\n')[0][:200], flush=True)
