#!/bin/bash
# seedsweep.sh "<seeds>" <ID...> : run quick tiers for unseen seeds with outputs under .work/seedsweep (evidence/ untouched)
seeds=$1; shift
cd /verif
for id in "$@"; do for s in $seeds; do
  VERIF_SEED=$s VERIF_OUT=/verif/.work/seedsweep ./check $id quick > .work/ss-$id-$s.log 2>&1
  echo "$id seed=$s rc=$? $(grep -h 'signature:' .work/ss-$id-$s.log | tr '\n' ' ' | cut -c1-220)"
done; done
