#!/usr/bin/env python3
"""Development aid for C11 (not used by any check).

  c11_run.py worker FILE.veryl [--toml T.toml] [--modes build,fmt,ls] [--timeout S]
      push one file through `vc-front c11-worker` (the mirrored pipelines)
  c11_run.py cli FILE.veryl [--toml T.toml] [--cmd build|check|fmt|dump] [--timeout S]
      run the real `veryl <cmd>` on a scratch project holding the file
  c11_run.py payload REPLAY.json ...   the same with files/toml/modes taken from a replay/reproducer file

Prints one line: status + signature-ish summary.  Exit status 0 = no crash, 1 = crash, 2 = timeout.
"""
import json, os, subprocess, sys, tempfile, shutil, re

BIN = os.environ.get("C11_BIN_DIR", "/verif/.target/a-front/release")
DEFAULT_TOML = '[project]\nname = "prj"\nversion = "0.1.0"\n[build]\nsources = ["src"]\ntarget = {type = "directory", path = "target"}\nexclude_std = true\n'


def worker(files, toml, modes, timeout, stack_mb=0):
    job = json.dumps({"modes": modes, "files": files, "toml": toml, "stack_mb": stack_mb}) + "\n"
    try:
        p = subprocess.run(["/bin/sh", "-c", f"ulimit -v 8388608; ulimit -c 0; exec {BIN}/vc-front c11-worker"],
                           input=job, capture_output=True, text=True, timeout=timeout, cwd="/verif/.work")
    except subprocess.TimeoutExpired as e:
        out = (e.stdout or b"")
        if isinstance(out, bytes):
            out = out.decode(errors="replace")
        stage = [l for l in out.split("\n") if l.startswith(("S ", "M "))][-3:]
        return 2, "TIMEOUT after " + " ".join(stage)
    mode, stage = "", ""
    for l in p.stdout.split("\n"):
        if l.startswith("M "):
            mode = l[2:]
        elif l.startswith("S "):
            stage = l[2:]
        elif l.startswith("R "):
            r = json.loads(l[2:])
            for x in r["results"]:
                if x["status"] == "panic":
                    return 1, f"PANIC {x['mode']}/{x['stage']} at {x['panic_loc']}: {x['panic_msg'][:200]} frames={x['panic_frames'][:4]}"
                if x["status"] != "ok":
                    return 0, f"{x['status'].upper()} in {x['mode']}"
            return 0, "OK " + " ".join(f"{x['mode']}:stop={x['stopped_at']},err={x['error_codes']},emit={x['emitted']}" for x in r["results"])
    if p.returncode < 0 or p.returncode >= 128:
        tail = p.stderr.strip().split("\n")[-2:]
        return 1, f"SIGNAL rc={p.returncode} in {mode}/{stage}: {' | '.join(tail)}"
    return 0, f"worker exit {p.returncode} without a reply: {p.stderr[-300:]}"


def cli(files, toml, cmd, timeout, keep=False):
    d = tempfile.mkdtemp(prefix="c11cli-", dir="/verif/.work")
    try:
        os.makedirs(d + "/src")
        open(d + "/Veryl.toml", "w").write(toml)
        for n, t in files:
            open(f"{d}/src/{n}", "w").write(t)
        env = dict(os.environ, XDG_CACHE_HOME="/verif/.work/a-front/cache", NO_COLOR="1", RUST_BACKTRACE="0")
        args = [f"{BIN}/veryl", cmd]
        if cmd == "fmt":
            args.append("--check")
        try:
            p = subprocess.run(args, capture_output=True, text=True, timeout=timeout, cwd=d, env=env)
        except subprocess.TimeoutExpired:
            return 2, f"TIMEOUT veryl {cmd}"
        err = p.stderr
        m = re.search(r"panicked at ([^\n]*):\n([^\n]*)", err)
        if p.returncode == 101 and m:
            return 1, f"PANIC rc=101 veryl {cmd}: at {m.group(1)}: {m.group(2)[:200]}"
        if p.returncode < 0 or p.returncode >= 128:
            tail = [l for l in err.strip().split("\n") if l.strip()][-2:]
            return 1, f"SIGNAL rc={p.returncode} veryl {cmd}: {' | '.join(tail)}"
        codes = sorted(set(re.findall(r"^(?:Error|Warning): (\w+)", err + p.stdout, re.M)))
        return 0, f"rc={p.returncode} veryl {cmd}: {codes[:6]}"
    finally:
        if not keep:
            shutil.rmtree(d, ignore_errors=True)


def main():
    a = sys.argv[1:]
    if len(a) < 2:
        print(__doc__)
        sys.exit(2)
    kind, path = a[0], a[1]
    opt = {"--toml": None, "--modes": "build,fmt,ls", "--cmd": "build", "--timeout": "60", "--stack": "0"}
    i = 2
    while i < len(a):
        opt[a[i]] = a[i + 1]
        i += 2
    toml = open(opt["--toml"]).read() if opt["--toml"] else DEFAULT_TOML
    if path.endswith(".json"):
        r = json.load(open(path))
        p = r.get("payload") or r.get("input")
        files = p["files"]
        toml = p.get("toml", toml)
        if "--modes" not in a and p.get("modes"):
            opt["--modes"] = ",".join(p["modes"])
    else:
        files = [["a.veryl", open(path).read()]]
    if kind == "worker":
        rc, msg = worker(files, toml, opt["--modes"].split(","), float(opt["--timeout"]), int(opt["--stack"]))
    else:
        rc, msg = cli(files, toml, opt["--cmd"], float(opt["--timeout"]))
    print(msg)
    sys.exit(rc)


if __name__ == "__main__":
    main()
