#!/usr/bin/env python3
"""Development aid for C11 (not used by any check): turn triaged reproducers
(tools/triage_c11.py output, `confirmed` non-empty) into /verif/known/C11/<slug>.json and
/verif/known_findings.d/C11.json entries.  Entries already present (by key) in
known_findings.json or known_findings.d/C11.json are left alone.

  assemble_c11.py TRIAGED.json [...]
"""
import json, os, re, sys

KD = "/verif/known_findings.d/C11.json"
os.makedirs("/verif/known_findings.d", exist_ok=True)
os.makedirs("/verif/known/C11", exist_ok=True)
main = json.load(open("/verif/known_findings.json"))
mine = json.load(open(KD)) if os.path.exists(KD) else []
have = {e["key"] for e in main if e["property"] == "C11"} | {e["key"] for e in mine}
for f in sys.argv[1:]:
    r = json.load(open(f))
    sig = r["signature"]
    if sig in have:
        print("already listed:", sig)
        continue
    if not r.get("confirmed"):
        print("NOT CONFIRMED, skipped:", sig)
        continue
    name = os.path.basename(f)
    dst = f"/verif/known/C11/{name}"
    out = {k: r[k] for k in ("property", "sub", "choices", "signature", "message", "payload", "confirmed")}
    if r.get("timeout_s"):
        out["payload"]["timeout_s"] = r["timeout_s"]
    json.dump(out, open(dst, "w"), indent=1)
    text = r["payload"]["files"][0][1].strip().replace("\n", " ")
    if len(text) > 160:
        text = text[:160] + "…"
    how = "; ".join(re.sub(r"\s+", " ", c)[:150] for c in r["confirmed"][:2])
    kind = ("stack overflow (process dies with SIGABRT)" if sig.startswith("crash-signal") else
            "does not finish within the limit" if sig.startswith("hang") else "panic instead of a diagnostic")
    mine.append({"property": "C11", "key": sig, "status": "known",
                 "what": f"{kind}; confirmed with the real binary: {how}; minimal input: {text}",
                 "replay": f"known/C11/{name}"})
    have.add(sig)
    print("listed:", sig)
json.dump(mine, open(KD, "w"), indent=1)
