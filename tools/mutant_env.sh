#!/bin/bash
# mutant_env.sh <name> [seed-target-dir]   create /tmp/mt-<name>/{repo,harness,target,out,run}
# mutant_env.sh --remove <name>            remove it (worktree + build output)
# The scratch harness is a copy of /verif/harness whose path dependencies
# point at the scratch worktree, so a mutated repository can be checked
# without touching /repo.  Re-run `mutant_env.sh <name>` to refresh the
# harness copy (the worktree and target dir are kept).
set -e
if [ "$1" = "--remove" ]; then
  n=$2; d=/tmp/mt-$n
  git -C /repo worktree remove --force $d/repo 2>/dev/null || true
  [ -L $d/target ] && rm -f $d/target
  rm -rf $d
  git -C /repo worktree prune
  exit 0
fi
n=$1; d=/tmp/mt-$n
mkdir -p $d/out/.work $d/out/evidence $d/out/replays
if [ ! -d $d/repo ]; then
  git -C /repo worktree add --detach $d/repo HEAD >/dev/null
  # uncommitted hook edits of /repo (if any) travel along
  (cd /repo && git diff HEAD) | (cd $d/repo && git apply --allow-empty 2>/dev/null || true)
  # a fresh checkout can leave veryl.par newer than the generated parser, which makes
  # build.rs regenerate it with parol (20+ minutes): mark the generated files current
  touch $d/repo/crates/parser/src/generated/* $d/repo/crates/migrator/src/generated/*
fi
rm -rf $d/harness
mkdir -p $d/harness
rsync -a --exclude target /verif/harness/ $d/harness/
find $d/harness -name Cargo.toml -print0 | xargs -0 sed -i "s#/repo/#$d/repo/#g"
sed -i "s#/verif/.target/h#$d/target#" $d/harness/.cargo/config.toml
if [ ! -e $d/target ] && [ -n "${2:-}" ] && [ -d "$2" ]; then
  # share the agent's own target dir (no copy: disk is tight); the scratch
  # worktree's crates have other paths, so they coexist with the /repo builds
  ln -s "$2" $d/target
fi
cat > $d/run <<EOS
#!/bin/bash
# usage: $d/run <ID> <quick|thorough> [args]
export VERIF_REPO=$d/repo VERIF_OUT=$d/out VERIF_HARNESS=$d/harness CARGO_TARGET_DIR=$d/target
exec /verif/check "\$@"
EOS
chmod +x $d/run
echo "scratch repo: $d/repo   run: $d/run <ID> quick"
