#!/bin/bash
# runall.sh <tier> <ID...> : run checks one after another, print one summary line each
tier=$1; shift
cd /verif
for id in "$@"; do
  out=/verif/.work/run-$id-$tier.log
  /usr/bin/time -f "%e s" ./check $id $tier > $out 2>&1
  rc=$?
  echo "$id rc=$rc $(grep -E "^$id $tier:" $out | tail -1) known=$(grep -c '^KNOWN-FINDING' $out) viol=$(grep -c '^VIOLATION' $out) $(tail -1 $out)"
done
