#!/usr/bin/env python3
import json,jsonschema,sys,glob
m=json.load(open('/verif/MANIFEST.json'))
jsonschema.validate(m,json.load(open('/root/.vp/MANIFEST.schema.json')))
s=json.load(open('/root/.vp/EVIDENCE.schema.json'))
for c in m['checks']:
    try:
        jsonschema.validate(json.load(open('/verif/'+c['evidence_file'])),s); print(c['property_id'],'evidence ok')
    except Exception as e:
        print(c['property_id'],'EVIDENCE PROBLEM',str(e)[:300])
