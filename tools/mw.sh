#!/bin/bash
# mw.sh <id>            create scratch worktree /tmp/mw-<id>/repo (for a sub-agent that seeds a property-breaking change)
# mw.sh --remove <id>   remove it
set -e
if [ "$1" = "--remove" ]; then
  git -C /repo worktree remove --force /tmp/mw-$2/repo 2>/dev/null || true
  rm -rf /tmp/mw-$2; git -C /repo worktree prune; exit 0
fi
mkdir -p /tmp/mw-$1/out
if [ ! -d /tmp/mw-$1/repo ]; then
  git -C /repo worktree add --detach /tmp/mw-$1/repo HEAD >/dev/null
  # keep build.rs from regenerating the parsers with parol (20+ minutes)
  touch /tmp/mw-$1/repo/crates/parser/src/generated/* /tmp/mw-$1/repo/crates/migrator/src/generated/*
fi
echo /tmp/mw-$1/repo
