#!/usr/bin/env python3
"""Development aid for C11 (not used by any check): minimise harvested failures and confirm
each against the REAL binaries.

  triage_c11.py OUTDIR HARVESTED.json [...]

For every harvested case: ddmin (tools/ddmin_c11.py, mirrored pipeline), then run the
minimised project through `veryl check|build|fmt|dump` and `veryl-ls` (tools/c11_ls.py) and
record which of them crash.  Writes OUTDIR/<slug>.json (reproducer in the known/ format with a
`confirmed` list) and prints one summary line per case.
"""
import hashlib, json, os, re, subprocess, sys
T = os.path.dirname(os.path.abspath(__file__))
sys.path.insert(0, T)
import c11_run

outdir = sys.argv[1]
os.makedirs(outdir, exist_ok=True)
for src in sys.argv[2:]:
    rep = json.load(open(src))
    sig = rep["signature"]
    slug = re.sub(r"[^a-z0-9]+", "-", sig.lower()).strip("-")[:70] + "-" + hashlib.md5(sig.encode()).hexdigest()[:6]
    dst = f"{outdir}/{slug}.json"
    m = re.search(r"`(\w+)` pipeline", rep["message"])
    mode = m.group(1) if m else "build"
    r = subprocess.run([sys.executable, f"{T}/ddmin_c11.py", src, dst, "--modes", mode, "--timeout", "120"], capture_output=True, text=True)
    if not os.path.exists(dst):
        print(f"{sig}\n   ddmin failed: {r.stderr.strip()[-300:]}")
        continue
    out = json.load(open(dst))
    p = out["payload"]
    confirmed, tried = [], []
    cmds = {"build": ["check", "build"], "check": ["check"], "fmt": ["fmt"], "ls": ["dump"], "dump": ["dump"]}[mode]
    for c in cmds:
        rc, msg = c11_run.cli(p["files"], p["toml"], c, 300)
        tried.append(f"veryl {c}: {msg}")
        if rc == 1:
            confirmed.append(f"veryl {c}: {msg}")
    if mode == "ls":
        r2 = subprocess.run([sys.executable, f"{T}/c11_ls.py", dst, "--timeout", "300"], capture_output=True, text=True)
        tried.append(f"veryl-ls: {r2.stdout.strip()}")
        if r2.returncode == 1:
            confirmed.append(f"veryl-ls didOpen: {r2.stdout.strip()}")
    out["signature"] = sig
    out["confirmed"] = confirmed
    out["tried"] = tried
    json.dump(out, open(dst, "w"), indent=1)
    print(f"{'CONFIRMED' if confirmed else 'UNCONFIRMED'} [{mode}] {sig}\n   -> {dst}")
    for t in tried:
        print("     ", t[:260])
    print("      text:", json.dumps(p["files"][0][1])[:300], flush=True)
