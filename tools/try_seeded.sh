#!/bin/bash
# try_seeded.sh <patch.diff> <ID> [ID...] : apply a seeded change in the coordinator's scratch
# worktree (/tmp/mt-coord), run the given checks' quick tiers there, revert.  /repo is untouched.
patch=$1; shift
[ -d /tmp/mt-coord ] || /verif/tools/mutant_env.sh coord >/dev/null
/verif/tools/mutant_env.sh coord >/dev/null   # refresh harness copy
cd /tmp/mt-coord/repo && git checkout -q -- . && git clean -fdq && git apply "$patch" || { echo "patch does not apply"; exit 3; }
for id in "$@"; do
  /tmp/mt-coord/run $id quick > /tmp/mt-coord/out/.work/seeded-$id.log 2>&1
  echo "$id rc=$? $(grep -E '^VIOLATION' /tmp/mt-coord/out/.work/seeded-$id.log | head -2 | tr '\n' ' ') $(grep -E "^$id quick:" /tmp/mt-coord/out/.work/seeded-$id.log | tail -1)"
done
cd /tmp/mt-coord/repo && git checkout -q -- . && git clean -fdq
