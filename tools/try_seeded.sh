#!/bin/bash
# try_seeded.sh <patch.diff> <ID> [ID...] : apply a seeded change in the coordinator's scratch
# worktree (/tmp/mt-coord, a git worktree of /repo at its current HEAD), run the given checks'
# quick tiers there (harness copy built against that worktree, outputs under /tmp/mt-coord/out),
# revert.  /repo itself is never touched.
patch=$1; shift
[ -d /tmp/mt-coord ] || /verif/tools/mutant_env.sh coord >/dev/null
/verif/tools/mutant_env.sh coord >/dev/null   # refresh the harness copy
cd /tmp/mt-coord/repo || exit 3
git reset -q --hard && git clean -fdq
git apply --3way "$patch" >/dev/null 2>&1 || { echo "patch does not apply: $patch"; exit 3; }
for id in "$@"; do
  /tmp/mt-coord/run $id quick > /tmp/mt-coord/out/.work/seeded-$id.log 2>&1
  echo "$(basename $(dirname $patch)) $id rc=$? $(grep -E '^VIOLATION' /tmp/mt-coord/out/.work/seeded-$id.log | head -2 | tr '\n' ' ') $(grep -E "^$id quick:" /tmp/mt-coord/out/.work/seeded-$id.log | tail -1)"
done
cd /tmp/mt-coord/repo && git reset -q --hard && git clean -fdq
